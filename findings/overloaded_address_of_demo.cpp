#include <gch/small_vector.hpp>
#include <vector>
#include <cstdio>
#include <memory>
struct amp { int v; int pad; amp* operator& () { static amp other = { -1, -1 }; return std::addressof (other); } const amp* operator& () const { static amp other = { -2, -2 }; return std::addressof (other); } };
int main () {
  gch::small_vector<amp, 2> s; std::vector<amp> m;
  for (int i = 0; i < 5; ++i) { amp a = { i, 0 }; s.push_back (a); m.push_back (a); s.emplace_back (a); m.emplace_back (a); }
  amp b = { 42, 0 }; s.insert (s.begin () + 1, b); m.insert (m.begin () + 1, b);
  s.insert (s.begin (), 2, b); m.insert (m.begin (), 2, b);
  int bad = 0;
  for (std::size_t i = 0; i < m.size (); ++i) if (s[i].v != m[i].v) { ++bad; std::printf ("i=%zu sv=%d vec=%d\n", i, s[i].v, m[i].v); }
  std::printf (bad ? "FAIL\n" : "PASS\n"); return bad != 0;
}

#include <gch/small_vector.hpp>
enum small_enum : unsigned char { A, B };
struct b1 { int a; }; struct b2 { int b; }; struct d : b1, b2 {};
int main() {
#if CASE==1
  int s[3] = {1,2,3}; gch::small_vector<unsigned, 2> v(s, s+3); return v[0] != 1;
#elif CASE==2
  small_enum s[2] = {A,B}; gch::small_vector<unsigned char, 2> v(s, s+2); return v[1] != 1;
#elif CASE==3
  d o[2]; d* s[2] = {&o[0], &o[1]}; gch::small_vector<b2*, 2> v(s, s+2); return v[1] != static_cast<b2*>(&o[1]);
#elif CASE==4
  int s[3] = {1,2,3}; gch::small_vector<unsigned, 2> v; v.assign(s, s+3); return v[0] != 1;
#elif CASE==5
  int s[3] = {1,2,3}; gch::small_vector<unsigned, 2> v(1); v.insert(v.begin(), s, s+3); return v[0] != 1;
#elif CASE==6
  int* s[1] = {nullptr}; gch::small_vector<const int*, 2> v(s, s+1); return v[0] != nullptr;
#endif
}

#include "cx_interp.hpp"
#include <cstdio>
using namespace cx;
constexpr op H[] = { {18,1,56238,1304,1880} };
constexpr trace C = run<cx::pod2, 4, 7, cx::prop_alloc<cx::pod2> >(H, 1);
int main(){ std::printf("%d %d %d\n", C.alloc_wrong_instance, C.alloc_unknown, C.alloc_leaked); return 0; }

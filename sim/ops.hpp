// svsim operation vocabulary: raw op records (what the seeded generator produces and what a
// replay file stores) and their names.  Raw operands are interpreted against the state of the
// world at execution time ("modulo current size"), so dropping earlier ops keeps later ones valid.
#ifndef SVSIM_OPS_HPP
#define SVSIM_OPS_HPP

#include "sim_core.hpp"

namespace sim
{

  enum op_kind
  {
    // (re)construction of slot a
    K_CTOR_DEFAULT = 0,
    K_CTOR_ALLOC,
    K_CTOR_COUNT,
    K_CTOR_COUNT_ALLOC,
    K_CTOR_COUNT_VAL,
    K_CTOR_GEN,
    K_CTOR_RANGE,
    K_CTOR_ILIST,
    K_CTOR_COPY,
    K_CTOR_COPY_ALLOC,
    K_CTOR_MOVE,
    K_CTOR_MOVE_ALLOC,
    // assignment
    K_ASSIGN_COPY,      // operator= (same type) / assign (const small_vector<T,I>&)
    K_ASSIGN_COPY_FN,   // assign (const small_vector&)
    K_ASSIGN_MOVE,      // operator= (&&) (same type) / assign (small_vector<T,I>&&)
    K_ASSIGN_MOVE_FN,
    K_ASSIGN_N,
    K_ASSIGN_RANGE,
    K_ASSIGN_ILIST,
    K_OPASSIGN_ILIST,
    K_SWAP,
    K_SWAP_NM,
    // insertion
    K_INSERT_COPY,
    K_INSERT_MOVE,
    K_INSERT_N,
    K_INSERT_RANGE,
    K_INSERT_ILIST,
    K_EMPLACE,
    K_PUSH_BACK_COPY,
    K_PUSH_BACK_MOVE,
    K_EMPLACE_BACK,
    // alias-argument variants (C11)
    K_INSERT_COPY_ALIAS,
    K_INSERT_N_ALIAS,
    K_EMPLACE_ALIAS,
    K_PUSH_BACK_ALIAS,
    K_EMPLACE_BACK_ALIAS,
    K_RESIZE_VAL_ALIAS,
    // removal
    K_ERASE_POS,
    K_ERASE_RANGE,
    K_POP_BACK,
    K_CLEAR,
    K_NM_ERASE,
    K_NM_ERASE_IF,
    // capacity
    K_RESERVE,
    K_SHRINK,
    K_RESIZE,
    K_RESIZE_VAL,
    // append extension
    K_APPEND_RANGE,
    K_APPEND_ILIST,
    K_APPEND_COPY_SV,
    K_APPEND_MOVE_SV,
    // observers
    K_AT,
    K_COMPARE,
    K_NM_ACCESS,
    // arguments that refer to an element INDIRECTLY (std::reference_wrapper): std::vector builds a
    // temporary first, so these too must behave as if the element had been copied first
    K_EMPLACE_CREF_ALIAS,
    K_EMPLACE_BACK_CREF_ALIAS,
    K_EMPLACE_MEMBER_ALIAS,   // emplace (pos, v[i].value): the argument is a sub-object of an element
    K_NKINDS
  };

  inline const char *
  op_name (int k)
  {
    static const char *const names[] = {
      "ctor_default", "ctor_alloc", "ctor_count", "ctor_count_alloc", "ctor_count_val",
      "ctor_gen", "ctor_range", "ctor_ilist", "ctor_copy", "ctor_copy_alloc", "ctor_move",
      "ctor_move_alloc", "assign_copy", "assign_copy_fn", "assign_move", "assign_move_fn",
      "assign_n", "assign_range", "assign_ilist", "opassign_ilist", "swap", "swap_nm",
      "insert_copy", "insert_move", "insert_n", "insert_range", "insert_ilist", "emplace",
      "push_back_copy", "push_back_move", "emplace_back", "insert_copy_alias", "insert_n_alias",
      "emplace_alias", "push_back_alias", "emplace_back_alias", "resize_val_alias", "erase_pos",
      "erase_range", "pop_back", "clear", "nm_erase", "nm_erase_if", "reserve", "shrink_to_fit",
      "resize", "resize_val", "append_range", "append_ilist", "append_copy_sv", "append_move_sv",
      "at", "compare", "nm_access", "emplace_cref_alias", "emplace_back_cref_alias",
      "emplace_member_alias"
    };
    return (0 <= k && k < K_NKINDS) ? names[k] : "?";
  }

  inline int
  op_kind_from_name (const char *s)
  {
    for (int k = 0; k < K_NKINDS; ++k)
      if (0 == std::strcmp (s, op_name (k)))
        return k;
    return -1;
  }

  // range kinds for the *_RANGE ops and CTOR_RANGE
  enum range_kind
  {
    RK_INPUT_E = 0,   // single-pass stream of E
    RK_FORWARD_E,
    RK_BIDIR_E,
    RK_RANDOM_E,
    RK_PTR_E,         // const E * (contiguous)
    RK_MOVE_PTR_E,    // std::move_iterator<E *>
    RK_INPUT_INT,     // single-pass stream of int (elements are built with E (int))
    RK_FORWARD_INT,
    RK_PTR_INT,
    RK_SV_ITER,       // iterators of a small_vector (contiguous, own iterator type)
    RK_MOVE_INPUT_E,  // std::move_iterator over a single-pass stream of E
    RK_NKINDS
  };

  inline const char *
  range_kind_name (int k)
  {
    static const char *const names[] = { "input<E>", "forward<E>", "bidir<E>", "random<E>",
                                         "E*", "move_iterator<E*>", "input<int>",
                                         "forward<int>", "int*", "small_vector::iterator",
                                         "move_iterator<input<E>>" };
    return (0 <= k && k < RK_NKINDS) ? names[k] : "?";
  }

  struct op
  {
    int           kind;
    unsigned      a;    // target slot (mod 4)
    unsigned      b;    // source slot (mod 4)
    std::uint32_t p[5]; // raw operands, interpreted at execution time
    fault_plan    f;

    op (void) : kind (0), a (0), b (0) { p[0] = p[1] = p[2] = p[3] = p[4] = 0; }
  };

  // text form, one op per line:
  //   op <name> <a> <b> <p0> <p1> <p2> <p3> <p4> [fault <mask> <k> [<mask2> <j>]]
  inline std::string
  op_to_text (const op& o)
  {
    char buf[256];
    int n = std::snprintf (buf, sizeof (buf), "op %s %u %u %u %u %u %u %u", op_name (o.kind), o.a,
                           o.b, o.p[0], o.p[1], o.p[2], o.p[3], o.p[4]);
    if (0 <= o.f.k && o.f.mask != 0)
    {
      n += std::snprintf (buf + n, sizeof (buf) - static_cast<std::size_t> (n), " fault %u %d",
                          o.f.mask, o.f.k);
      if (0 <= o.f.j && o.f.mask2 != 0)
        std::snprintf (buf + n, sizeof (buf) - static_cast<std::size_t> (n), " %u %d", o.f.mask2,
                       o.f.j);
    }
    return buf;
  }

  inline bool
  op_from_text (const char *line, op& o)
  {
    char name[64];
    unsigned a, b, p0, p1, p2, p3, p4;
    int consumed = 0;
    if (8 != std::sscanf (line, "op %63s %u %u %u %u %u %u %u%n", name, &a, &b, &p0, &p1, &p2, &p3,
                          &p4, &consumed))
      return false;
    o = op ();
    o.kind = op_kind_from_name (name);
    if (o.kind < 0)
      return false;
    o.a = a; o.b = b;
    o.p[0] = p0; o.p[1] = p1; o.p[2] = p2; o.p[3] = p3; o.p[4] = p4;
    unsigned m1 = 0, m2 = 0;
    int k = -1, j = -1;
    const int got = std::sscanf (line + consumed, " fault %u %d %u %d", &m1, &k, &m2, &j);
    if (got >= 2)
    {
      o.f.mask = m1;
      o.f.k    = k;
      if (got == 4)
      {
        o.f.mask2 = m2;
        o.f.j     = j;
      }
    }
    return true;
  }

} // namespace sim

#endif

// svsim input seams: instrumented iterators of every category over a harness-owned array,
// and the generator object for the generator constructor.
#ifndef SVSIM_ITER_HPP
#define SVSIM_ITER_HPP

#include "sim_core.hpp"

#include <iterator>

namespace sim
{

  // Shared bookkeeping of one source range handed to the container.
  struct range_state
  {
    std::size_t            len;
    std::size_t            cursor;      // single-pass: how far the stream has been advanced
    bool                   single_pass;
    bool                   may_throw;   // operator* / operator++ are fault-eligible events
    std::vector<unsigned>  derefs;      // per position
    std::vector<unsigned>  incs;        // per position
    std::vector<unsigned>  order;       // positions in order of first dereference
    bool                   stale_use;
    bool                   past_end_deref;
    bool                   past_end_inc;
    bool                   before_begin;

    range_state (std::size_t n, bool sp, bool thr)
      : len (n), cursor (0), single_pass (sp), may_throw (thr), derefs (n + 1, 0),
        incs (n + 1, 0), stale_use (false), past_end_deref (false), past_end_inc (false),
        before_begin (false)
    { }

    void
    note_deref (std::size_t pos)
    {
      if (single_pass && pos != cursor)
        stale_use = true;
      if (pos >= len)
      {
        past_end_deref = true;
        return;
      }
      if (derefs[pos]++ == 0)
        order.push_back (static_cast<unsigned> (pos));
    }

    void
    note_inc (std::size_t pos)
    {
      if (single_pass && pos != cursor)
        stale_use = true;
      if (pos >= len)
      {
        past_end_inc = true;
        return;
      }
      ++incs[pos];
      if (single_pass)
        ++cursor;
    }
  };

  // One iterator class for the input / forward / bidirectional / random-access categories.
  // V is the source value type, Ref the type returned by operator*.
  template <class V, class Cat, class Ref = const V&>
  class range_iter
  {
  public:
    typedef Cat                                      iterator_category;
    typedef typename std::remove_cv<V>::type         value_type;
    typedef std::ptrdiff_t                           difference_type;
    typedef const V                                 *pointer;
    typedef Ref                                      reference;

    range_iter (void) noexcept : m_st (0), m_base (0), m_pos (0) { }
    range_iter (range_state *st, V *base, std::size_t pos) noexcept
      : m_st (st), m_base (base), m_pos (pos)
    { }

    Ref
    operator* (void) const
    {
      if (m_st->may_throw)
        on_event (EV_ITER_DEREF);
      m_st->note_deref (m_pos);
      // a past-the-end dereference is recorded above; hand out element 0's slot of the spare cell
      return static_cast<Ref> (m_base[m_pos < m_st->len ? m_pos : m_st->len]);
    }

    range_iter&
    operator++ (void)
    {
      if (m_st->may_throw)
        on_event (EV_ITER_INC);
      m_st->note_inc (m_pos);
      ++m_pos;
      return *this;
    }

    range_iter
    operator++ (int)
    {
      range_iter tmp (*this);
      ++*this;
      return tmp;
    }

    // bidirectional
    range_iter&
    operator-- (void)
    {
      if (m_pos == 0)
        m_st->before_begin = true;
      else
        --m_pos;
      return *this;
    }

    range_iter
    operator-- (int)
    {
      range_iter tmp (*this);
      --*this;
      return tmp;
    }

    // random access
    range_iter&
    operator+= (difference_type n) noexcept
    {
      const difference_type np = static_cast<difference_type> (m_pos) + n;
      if (np < 0)
        m_st->before_begin = true;
      else if (static_cast<std::size_t> (np) > m_st->len)
        m_st->past_end_inc = true;
      m_pos = static_cast<std::size_t> (np < 0 ? 0 : np);
      return *this;
    }

    range_iter& operator-= (difference_type n) noexcept { return *this += -n; }

    friend range_iter operator+ (range_iter it, difference_type n) noexcept { it += n; return it; }
    friend range_iter operator+ (difference_type n, range_iter it) noexcept { it += n; return it; }
    friend range_iter operator- (range_iter it, difference_type n) noexcept { it -= n; return it; }

    friend difference_type
    operator- (const range_iter& a, const range_iter& b) noexcept
    {
      return static_cast<difference_type> (a.m_pos) - static_cast<difference_type> (b.m_pos);
    }

    Ref operator[] (difference_type n) const { return *(*this + n); }

    friend bool operator== (const range_iter& a, const range_iter& b) noexcept { return a.m_pos == b.m_pos; }
    friend bool operator!= (const range_iter& a, const range_iter& b) noexcept { return a.m_pos != b.m_pos; }
    friend bool operator<  (const range_iter& a, const range_iter& b) noexcept { return a.m_pos <  b.m_pos; }
    friend bool operator>  (const range_iter& a, const range_iter& b) noexcept { return a.m_pos >  b.m_pos; }
    friend bool operator<= (const range_iter& a, const range_iter& b) noexcept { return a.m_pos <= b.m_pos; }
    friend bool operator>= (const range_iter& a, const range_iter& b) noexcept { return a.m_pos >= b.m_pos; }

    std::size_t pos (void) const noexcept { return m_pos; }

  private:
    range_state *m_st;
    V           *m_base;
    std::size_t  m_pos;
  };

  // Generator for small_vector (count, generator, alloc): returns E (base + i) on the i-th call.
  struct gen_state
  {
    int      base;
    unsigned valmod;
    unsigned calls;
    bool     may_throw;
    gen_state (int b, unsigned vm, bool thr) : base (b), valmod (vm), calls (0), may_throw (thr) { }
  };

  template <class E>
  struct sim_gen
  {
    gen_state *st;

    explicit sim_gen (gen_state *s) : st (s) { }

    E
    operator() (void)
    {
      if (st->may_throw)
        on_event (EV_GEN_CALL);
      const int v = static_cast<int> ((static_cast<unsigned> (st->base) + st->calls) % st->valmod);
      ++st->calls;
      return E (v);
    }
  };

} // namespace sim

#endif

// svsim element seam: instrumented element flavours + lifetime registry.
#ifndef SVSIM_ELEM_HPP
#define SVSIM_ELEM_HPP

#include "sim_core.hpp"

#include <type_traits>
#include <unordered_map>
#include <utility>

#if defined (__cpp_impl_three_way_comparison) && __cpp_impl_three_way_comparison >= 201907L
#  if defined (__has_include)
#    if __has_include (<compare>)
#      include <compare>
#      define SVSIM_HAVE_SPACESHIP
#    endif
#  endif
#endif

namespace sim
{

  struct registry
  {
    std::unordered_map<const void *, std::uint32_t> live; // address -> serial
    std::uint32_t next_serial;
    std::uint64_t constructed;
    std::uint64_t destroyed;
    bool          counters_only; // long-run mode: no per-address bookkeeping

    registry (void) : next_serial (1), constructed (0), destroyed (0), counters_only (false) { }

    std::uint64_t
    live_count (void) const
    {
      return counters_only ? (constructed - destroyed) : live.size ();
    }

    bool
    is_live (const void *p) const
    {
      return live.find (p) != live.end ();
    }

    void
    reset (void)
    {
      live.clear ();
      next_serial = 1;
      constructed = destroyed = 0;
    }
  };

  registry& R (void);

  static const int MOVED_FROM_VALUE = -777;
  static const int DEAD_VALUE       = -999;

  // Common state + registry plumbing. Special members are spelled out per flavour.
  struct elem_core
  {
    int           value;
    std::uint32_t serial;
    std::uint32_t mf; // 1: moved-from (contents unspecified)

  protected:
    void
    reg_construct (void) noexcept
    {
      registry& r = R ();
      ++r.constructed;
      serial = r.next_serial++;
      if (! r.counters_only)
      {
        std::pair<std::unordered_map<const void *, std::uint32_t>::iterator, bool> ins
          = r.live.insert (std::make_pair (static_cast<const void *> (this), serial));
        if (! ins.second)
        {
          violate ("life.ctor_over_live", "constructed over live element serial=%u (op %s)",
                   ins.first->second, G ().cur_op_name);
          ins.first->second = serial;
        }
      }
      log_elem (this, EE_CONSTRUCT);
    }

    void
    reg_destroy (void) noexcept
    {
      registry& r = R ();
      ++r.destroyed;
      if (! r.counters_only)
      {
        std::unordered_map<const void *, std::uint32_t>::iterator it = r.live.find (this);
        if (it == r.live.end ())
          violate ("life.double_destroy", "destroyed storage holding no live element (op %s)",
                   G ().cur_op_name);
        else
          r.live.erase (it);
      }
      log_elem (this, EE_DESTROY);
      value = DEAD_VALUE;
    }

  public:
    static void
    check_live (const elem_core *p, const char *what) noexcept
    {
      registry& r = R ();
      if (! r.counters_only && ! r.is_live (p))
        violate ("life.use_dead", "%s storage holding no live element (op %s)", what,
                 G ().cur_op_name);
    }
  };

  // comparisons of the instrumented flavours may throw (fault kind `compare`): the container's
  // comparison operators and the non-member erase are not noexcept and must pass it on
  inline bool
  operator== (const elem_core& a, const elem_core& b)
  {
    on_event (EV_COMPARE);
    elem_core::check_live (&a, "compared");
    elem_core::check_live (&b, "compared");
    return a.value == b.value;
  }

  inline bool
  operator< (const elem_core& a, const elem_core& b)
  {
    on_event (EV_COMPARE);
    elem_core::check_live (&a, "compared");
    elem_core::check_live (&b, "compared");
    return a.value < b.value;
  }

  // ------------------------------------------------------------------ flavour NM
  // copyable (copies may throw), nothrow move.
  template <int Tag = 0>
  struct elem_nm : elem_core
  {
    static const bool copyable       = true;
    static const bool move_throws    = false;
    static const bool instrumented   = true;
    static const bool lvalue_movable = true;
    static const char *flavour (void) { return "NM"; }

    elem_nm (void) { on_event (EV_CTOR_DEFAULT); value = 0; mf = 0; reg_construct (); }
    explicit elem_nm (int v) { on_event (EV_CTOR_VALUE); value = v; mf = 0; reg_construct (); }
    elem_nm (int a, int b) { on_event (EV_CTOR_VALUE); value = a + b; mf = 0; reg_construct (); }

    elem_nm (const elem_nm& o)
    {
      on_event (EV_CTOR_COPY);
      check_live (&o, "copy-constructed from");
      log_elem (&o, EE_READ);
      value = o.value; mf = o.mf;
      reg_construct ();
    }

    elem_nm (elem_nm&& o) noexcept
    {
      on_event_nothrow (EV_CTOR_MOVE);
      check_live (&o, "move-constructed from");
      value = o.value; mf = o.mf;
      o.value = MOVED_FROM_VALUE; o.mf = 1;
      log_elem (&o, EE_MOVED_FROM);
      reg_construct ();
    }

    elem_nm&
    operator= (const elem_nm& o)
    {
      on_event (EV_ASSIGN_COPY);
      check_live (this, "assigned to");
      check_live (&o, "copy-assigned from");
      log_elem (&o, EE_READ);
      log_elem (this, EE_ASSIGNED_TO);
      value = o.value; mf = o.mf;
      return *this;
    }

    elem_nm&
    operator= (elem_nm&& o) noexcept
    {
      on_event_nothrow (EV_ASSIGN_MOVE);
      check_live (this, "assigned to");
      check_live (&o, "move-assigned from");
      log_elem (this, EE_ASSIGNED_TO);
      if (this != &o)
      {
        value = o.value; mf = o.mf;
        o.value = MOVED_FROM_VALUE; o.mf = 1;
        log_elem (&o, EE_MOVED_FROM);
      }
      return *this;
    }

    ~elem_nm (void) { reg_destroy (); }

#ifdef SVSIM_HAVE_SPACESHIP
    friend std::strong_ordering
    operator<=> (const elem_nm& a, const elem_nm& b)
    {
      on_event (EV_COMPARE);
      check_live (&a, "compared");
      check_live (&b, "compared");
      return a.value <=> b.value;
    }
    friend bool
    operator== (const elem_nm& a, const elem_nm& b)
    {
      return static_cast<const elem_core&> (a) == static_cast<const elem_core&> (b);
    }
#endif
  };

  // ------------------------------------------------------------------ flavour TM
  // copyable, move may throw  =>  the container must relocate by copy for strong guarantees.
  template <int Tag = 0>
  struct elem_tm : elem_core
  {
    static const bool copyable       = true;
    static const bool move_throws    = true;
    static const bool instrumented   = true;
    static const bool lvalue_movable = true;
    static const char *flavour (void) { return "TM"; }

    elem_tm (void) { on_event (EV_CTOR_DEFAULT); value = 0; mf = 0; reg_construct (); }
    explicit elem_tm (int v) { on_event (EV_CTOR_VALUE); value = v; mf = 0; reg_construct (); }
    elem_tm (int a, int b) { on_event (EV_CTOR_VALUE); value = a + b; mf = 0; reg_construct (); }

    elem_tm (const elem_tm& o)
    {
      on_event (EV_CTOR_COPY);
      check_live (&o, "copy-constructed from");
      log_elem (&o, EE_READ);
      value = o.value; mf = o.mf;
      reg_construct ();
    }

    elem_tm (elem_tm&& o)
    {
      on_event (EV_CTOR_MOVE);
      check_live (&o, "move-constructed from");
      value = o.value; mf = o.mf;
      o.value = MOVED_FROM_VALUE; o.mf = 1;
      log_elem (&o, EE_MOVED_FROM);
      reg_construct ();
    }

    elem_tm&
    operator= (const elem_tm& o)
    {
      on_event (EV_ASSIGN_COPY);
      check_live (this, "assigned to");
      check_live (&o, "copy-assigned from");
      log_elem (&o, EE_READ);
      log_elem (this, EE_ASSIGNED_TO);
      value = o.value; mf = o.mf;
      return *this;
    }

    elem_tm&
    operator= (elem_tm&& o)
    {
      on_event (EV_ASSIGN_MOVE);
      check_live (this, "assigned to");
      check_live (&o, "move-assigned from");
      log_elem (this, EE_ASSIGNED_TO);
      if (this != &o)
      {
        value = o.value; mf = o.mf;
        o.value = MOVED_FROM_VALUE; o.mf = 1;
        log_elem (&o, EE_MOVED_FROM);
      }
      return *this;
    }

    ~elem_tm (void) { reg_destroy (); }
  };

  // ------------------------------------------------------------------ flavour MO
  // move-only, move may throw (not copy-insertable: C05's stated exemption).
  template <int Tag = 0>
  struct elem_mo : elem_core
  {
    static const bool copyable       = false;
    static const bool move_throws    = true;
    static const bool instrumented   = true;
    static const bool lvalue_movable = true;
    static const char *flavour (void) { return "MO"; }

    elem_mo (void) { on_event (EV_CTOR_DEFAULT); value = 0; mf = 0; reg_construct (); }
    explicit elem_mo (int v) { on_event (EV_CTOR_VALUE); value = v; mf = 0; reg_construct (); }
    elem_mo (int a, int b) { on_event (EV_CTOR_VALUE); value = a + b; mf = 0; reg_construct (); }
    elem_mo (const elem_mo&)            = delete;
    elem_mo& operator= (const elem_mo&) = delete;

    elem_mo (elem_mo&& o)
    {
      on_event (EV_CTOR_MOVE);
      check_live (&o, "move-constructed from");
      value = o.value; mf = o.mf;
      o.value = MOVED_FROM_VALUE; o.mf = 1;
      log_elem (&o, EE_MOVED_FROM);
      reg_construct ();
    }

    elem_mo&
    operator= (elem_mo&& o)
    {
      on_event (EV_ASSIGN_MOVE);
      check_live (this, "assigned to");
      check_live (&o, "move-assigned from");
      log_elem (this, EE_ASSIGNED_TO);
      if (this != &o)
      {
        value = o.value; mf = o.mf;
        o.value = MOVED_FROM_VALUE; o.mf = 1;
        log_elem (&o, EE_MOVED_FROM);
      }
      return *this;
    }

    ~elem_mo (void) { reg_destroy (); }
  };

  // ------------------------------------------------------------------ flavour MN
  // move-only, nothrow move.
  template <int Tag = 0>
  struct elem_mn : elem_core
  {
    static const bool copyable       = false;
    static const bool move_throws    = false;
    static const bool instrumented   = true;
    static const bool lvalue_movable = true;
    static const char *flavour (void) { return "MN"; }

    elem_mn (void) { on_event (EV_CTOR_DEFAULT); value = 0; mf = 0; reg_construct (); }
    explicit elem_mn (int v) { on_event (EV_CTOR_VALUE); value = v; mf = 0; reg_construct (); }
    elem_mn (int a, int b) { on_event (EV_CTOR_VALUE); value = a + b; mf = 0; reg_construct (); }
    elem_mn (const elem_mn&)            = delete;
    elem_mn& operator= (const elem_mn&) = delete;

    elem_mn (elem_mn&& o) noexcept
    {
      on_event_nothrow (EV_CTOR_MOVE);
      check_live (&o, "move-constructed from");
      value = o.value; mf = o.mf;
      o.value = MOVED_FROM_VALUE; o.mf = 1;
      log_elem (&o, EE_MOVED_FROM);
      reg_construct ();
    }

    elem_mn&
    operator= (elem_mn&& o) noexcept
    {
      on_event_nothrow (EV_ASSIGN_MOVE);
      check_live (this, "assigned to");
      check_live (&o, "move-assigned from");
      log_elem (this, EE_ASSIGNED_TO);
      if (this != &o)
      {
        value = o.value; mf = o.mf;
        o.value = MOVED_FROM_VALUE; o.mf = 1;
        log_elem (&o, EE_MOVED_FROM);
      }
      return *this;
    }

    ~elem_mn (void) { reg_destroy (); }
  };

  // ------------------------------------------------------------------ flavour CO
  // copy-only: no move operations are declared, rvalues bind to the copy operations.
  template <int Tag = 0>
  struct elem_co : elem_core
  {
    static const bool copyable       = true;
    static const bool move_throws    = true; // "moving" copies, and copies may throw
    static const bool instrumented   = true;
    static const bool lvalue_movable = true;
    static const char *flavour (void) { return "CO"; }

    elem_co (void) { on_event (EV_CTOR_DEFAULT); value = 0; mf = 0; reg_construct (); }
    explicit elem_co (int v) { on_event (EV_CTOR_VALUE); value = v; mf = 0; reg_construct (); }
    elem_co (int a, int b) { on_event (EV_CTOR_VALUE); value = a + b; mf = 0; reg_construct (); }

    elem_co (const elem_co& o)
    {
      on_event (EV_CTOR_COPY);
      check_live (&o, "copy-constructed from");
      log_elem (&o, EE_READ);
      value = o.value; mf = o.mf;
      reg_construct ();
    }

    elem_co&
    operator= (const elem_co& o)
    {
      on_event (EV_ASSIGN_COPY);
      check_live (this, "assigned to");
      check_live (&o, "copy-assigned from");
      log_elem (&o, EE_READ);
      log_elem (this, EE_ASSIGNED_TO);
      value = o.value; mf = o.mf;
      return *this;
    }

    ~elem_co (void) { reg_destroy (); }
  };

  // ------------------------------------------------------------------ flavour MA
  // nothrow move CONSTRUCTION but throwing move ASSIGNMENT (copyable, copies may throw):
  // paths chosen by is_nothrow_move_constructible still contain throwing element operations.
  template <int Tag = 0>
  struct elem_ma : elem_core
  {
    static const bool copyable       = true;
    static const bool move_throws    = false;
    static const bool instrumented   = true;
    static const bool lvalue_movable = true;
    static const char *flavour (void) { return "MA"; }

    elem_ma (void) { on_event (EV_CTOR_DEFAULT); value = 0; mf = 0; reg_construct (); }
    explicit elem_ma (int v) { on_event (EV_CTOR_VALUE); value = v; mf = 0; reg_construct (); }
    elem_ma (int a, int b) { on_event (EV_CTOR_VALUE); value = a + b; mf = 0; reg_construct (); }

    elem_ma (const elem_ma& o)
    {
      on_event (EV_CTOR_COPY);
      check_live (&o, "copy-constructed from");
      log_elem (&o, EE_READ);
      value = o.value; mf = o.mf;
      reg_construct ();
    }

    elem_ma (elem_ma&& o) noexcept
    {
      on_event_nothrow (EV_CTOR_MOVE);
      check_live (&o, "move-constructed from");
      value = o.value; mf = o.mf;
      o.value = MOVED_FROM_VALUE; o.mf = 1;
      log_elem (&o, EE_MOVED_FROM);
      reg_construct ();
    }

    elem_ma&
    operator= (const elem_ma& o)
    {
      on_event (EV_ASSIGN_COPY);
      check_live (this, "assigned to");
      check_live (&o, "copy-assigned from");
      log_elem (&o, EE_READ);
      log_elem (this, EE_ASSIGNED_TO);
      value = o.value; mf = o.mf;
      return *this;
    }

    elem_ma&
    operator= (elem_ma&& o)
    {
      on_event (EV_ASSIGN_MOVE);
      check_live (this, "assigned to");
      check_live (&o, "move-assigned from");
      log_elem (this, EE_ASSIGNED_TO);
      if (this != &o)
      {
        value = o.value; mf = o.mf;
        o.value = MOVED_FROM_VALUE; o.mf = 1;
        log_elem (&o, EE_MOVED_FROM);
      }
      return *this;
    }

    ~elem_ma (void) { reg_destroy (); }
  };

  // ------------------------------------------------------------------ flavour NC
  // everything about the element is noexcept (copy and move construction and assignment), like
  // a reference-counted handle, but it has a non-trivial destructor: the only exceptions come
  // from the allocator, the caller's iterators / generator and the int -> element constructor.
  template <int Tag = 0>
  struct elem_nc : elem_core
  {
    static const bool copyable       = true;
    static const bool move_throws    = false;
    static const bool instrumented   = true;
    static const bool lvalue_movable = true;
    static const char *flavour (void) { return "NC"; }

    elem_nc (void) noexcept { on_event_nothrow (EV_CTOR_DEFAULT); value = 0; mf = 0; reg_construct (); }
    explicit elem_nc (int v) { on_event (EV_CTOR_VALUE); value = v; mf = 0; reg_construct (); }
    elem_nc (int a, int b) { on_event (EV_CTOR_VALUE); value = a + b; mf = 0; reg_construct (); }

    elem_nc (const elem_nc& o) noexcept
    {
      on_event_nothrow (EV_CTOR_COPY);
      check_live (&o, "copy-constructed from");
      log_elem (&o, EE_READ);
      value = o.value; mf = o.mf;
      reg_construct ();
    }

    elem_nc (elem_nc&& o) noexcept
    {
      on_event_nothrow (EV_CTOR_MOVE);
      check_live (&o, "move-constructed from");
      value = o.value; mf = o.mf;
      o.value = MOVED_FROM_VALUE; o.mf = 1;
      log_elem (&o, EE_MOVED_FROM);
      reg_construct ();
    }

    elem_nc&
    operator= (const elem_nc& o) noexcept
    {
      on_event_nothrow (EV_ASSIGN_COPY);
      check_live (this, "assigned to");
      check_live (&o, "copy-assigned from");
      log_elem (&o, EE_READ);
      log_elem (this, EE_ASSIGNED_TO);
      value = o.value; mf = o.mf;
      return *this;
    }

    elem_nc&
    operator= (elem_nc&& o) noexcept
    {
      on_event_nothrow (EV_ASSIGN_MOVE);
      check_live (this, "assigned to");
      check_live (&o, "move-assigned from");
      log_elem (this, EE_ASSIGNED_TO);
      if (this != &o)
      {
        value = o.value; mf = o.mf;
        o.value = MOVED_FROM_VALUE; o.mf = 1;
        log_elem (&o, EE_MOVED_FROM);
      }
      return *this;
    }

    ~elem_nc (void) { reg_destroy (); }
  };

  // ------------------------------------------------------------------ flavour SW
  // nothrow move construction and assignment, but a user-provided ADL swap that may throw:
  // is_nothrow_swappable<T> is false although both moves are noexcept.
  template <int Tag = 0>
  struct elem_sw : elem_core
  {
    static const bool copyable       = true;
    static const bool move_throws    = false;
    static const bool instrumented   = true;
    static const bool lvalue_movable = true;
    static const char *flavour (void) { return "SW"; }

    elem_sw (void) { on_event (EV_CTOR_DEFAULT); value = 0; mf = 0; reg_construct (); }
    explicit elem_sw (int v) { on_event (EV_CTOR_VALUE); value = v; mf = 0; reg_construct (); }
    elem_sw (int a, int b) { on_event (EV_CTOR_VALUE); value = a + b; mf = 0; reg_construct (); }

    elem_sw (const elem_sw& o)
    {
      on_event (EV_CTOR_COPY);
      check_live (&o, "copy-constructed from");
      log_elem (&o, EE_READ);
      value = o.value; mf = o.mf;
      reg_construct ();
    }

    elem_sw (elem_sw&& o) noexcept
    {
      on_event_nothrow (EV_CTOR_MOVE);
      check_live (&o, "move-constructed from");
      value = o.value; mf = o.mf;
      o.value = MOVED_FROM_VALUE; o.mf = 1;
      log_elem (&o, EE_MOVED_FROM);
      reg_construct ();
    }

    elem_sw&
    operator= (const elem_sw& o)
    {
      on_event (EV_ASSIGN_COPY);
      check_live (this, "assigned to");
      check_live (&o, "copy-assigned from");
      log_elem (&o, EE_READ);
      log_elem (this, EE_ASSIGNED_TO);
      value = o.value; mf = o.mf;
      return *this;
    }

    elem_sw&
    operator= (elem_sw&& o) noexcept
    {
      on_event_nothrow (EV_ASSIGN_MOVE);
      check_live (this, "assigned to");
      check_live (&o, "move-assigned from");
      log_elem (this, EE_ASSIGNED_TO);
      if (this != &o)
      {
        value = o.value; mf = o.mf;
        o.value = MOVED_FROM_VALUE; o.mf = 1;
        log_elem (&o, EE_MOVED_FROM);
      }
      return *this;
    }

    ~elem_sw (void) { reg_destroy (); }

    friend void
    swap (elem_sw& a, elem_sw& b)
    {
      on_event (EV_SWAP);
      check_live (&a, "swapped");
      check_live (&b, "swapped");
      log_elem (&a, EE_ASSIGNED_TO);
      log_elem (&b, EE_ASSIGNED_TO);
      const int v = a.value; a.value = b.value; b.value = v;
      const std::uint32_t m = a.mf; a.mf = b.mf; b.mf = m;
    }
  };

  // ------------------------------------------------------------------ flavour TC
  // trivially copyable twin: value only; drives the memcpy/memmove/fill fast paths.
  template <int Tag = 0>
  struct elem_tc
  {
    static const bool copyable       = true;
    static const bool move_throws    = false;
    static const bool instrumented   = false;
    static const bool lvalue_movable = true;
    static const char *flavour (void) { return "TC"; }

    int           value;
    std::uint32_t serial; // unused (always 0 after value-init); keeps the layout of the twins equal
    std::uint32_t mf;

    elem_tc (void) = default;
    explicit elem_tc (int v) noexcept : value (v), serial (0), mf (0) { }
    elem_tc (int a, int b) noexcept : value (a + b), serial (0), mf (0) { }
  };

  template <int Tag>
  inline bool operator== (const elem_tc<Tag>& a, const elem_tc<Tag>& b) noexcept { return a.value == b.value; }
  template <int Tag>
  inline bool operator< (const elem_tc<Tag>& a, const elem_tc<Tag>& b) noexcept { return a.value < b.value; }

  // 1-byte trivially copyable element (size-arithmetic universes: max_size() near size_type max)
  struct elem_b1
  {
    static const bool copyable       = true;
    static const bool move_throws    = false;
    static const bool instrumented   = false;
    static const bool lvalue_movable = true;
    static const char *flavour (void) { return "B1"; }

    signed char value;

    elem_b1 (void) = default;
    explicit elem_b1 (int v) noexcept : value (static_cast<signed char> (v)) { }
    elem_b1 (int a, int b) noexcept : value (static_cast<signed char> (a + b)) { }
  };

  inline bool operator== (const elem_b1& a, const elem_b1& b) noexcept { return a.value == b.value; }
  inline bool operator< (const elem_b1& a, const elem_b1& b) noexcept { return a.value < b.value; }

  // uniform accessors used by the harness
  template <class E>
  inline bool
  elem_unspecified (const E& e, std::true_type /* instrumented */)
  {
    return e.mf != 0;
  }

  template <class E>
  inline bool
  elem_unspecified (const E&, std::false_type)
  {
    return false;
  }

  template <class E>
  inline bool
  elem_unspecified (const E& e)
  {
    return elem_unspecified (e, std::integral_constant<bool, E::instrumented> ());
  }

  template <class E>
  inline std::uint32_t
  elem_serial (const E& e, std::true_type)
  {
    return e.serial;
  }

  template <class E>
  inline std::uint32_t
  elem_serial (const E&, std::false_type)
  {
    return 0;
  }

  template <class E>
  inline std::uint32_t
  elem_serial (const E& e)
  {
    return elem_serial (e, std::integral_constant<bool, E::instrumented> ());
  }

} // namespace sim

#endif

// svsim worker: command line, universe registry, crash attribution, STATS line.
#include "registry.hpp"

#include <csignal>
#include <unistd.h>

namespace sim
{

  state& G (void) { static state s; return s; }
  registry& R (void) { static registry r; return r; }
  ledger& L (void) { static ledger l; return l; }
  construct_stats& CS (void) { static construct_stats c; return c; }

  std::vector<universe_entry>&
  universes (void)
  {
    static std::vector<universe_entry> v;
    return v;
  }

} // namespace sim

// Sanitizer reports must be distinguishable from verdicts; leaks are judged by the ledger.
extern "C" __attribute__ ((used, visibility ("default"))) const char *
__asan_default_options (void)
{
  return "exitcode=77:detect_leaks=0:abort_on_error=0:allocator_may_return_null=1";
}

extern "C" __attribute__ ((used, visibility ("default"))) const char *
__ubsan_default_options (void)
{
  return "halt_on_error=1:exitcode=77:print_stacktrace=1";
}

static void
on_terminate (void)
{
  sim::state& g = sim::G ();
  char buf[256];
  const int n = std::snprintf (buf, sizeof (buf), "TERMINATE op=%s index=%d fired=%d kind=%s\n",
                               g.cur_op_name, g.cur_op_index, g.fired,
                               g.fired > 0 ? sim::ev_name (g.fired_kind[0]) : "none");
  if (n > 0)
    (void) ! write (1, buf, static_cast<size_t> (n));
  _exit (78);
}

// called by the ASan runtime before it prints its report
extern "C" __attribute__ ((used, visibility ("default"))) void
__asan_on_error (void)
{
  sim::state& g = sim::G ();
  char buf[256];
  const int n = std::snprintf (buf, sizeof (buf), "ASAN op=%s index=%d fired=%d\n",
                               g.cur_op_name, g.cur_op_index, g.fired);
  if (n > 0)
    (void) ! write (1, buf, static_cast<size_t> (n));
}

static void
on_signal (int sig)
{
  sim::state& g = sim::G ();
  char buf[256];
  const int n = std::snprintf (buf, sizeof (buf), "SIGNAL %d op=%s index=%d fired=%d\n", sig,
                               g.cur_op_name, g.cur_op_index, g.fired);
  if (n > 0)
    (void) ! write (1, buf, static_cast<size_t> (n));
  _exit (79);
}

static bool
load_replay (const char *path, sim::job& jb)
{
  std::FILE *f = std::fopen (path, "r");
  if (! f)
    return false;
  char line[512];
  while (std::fgets (line, sizeof (line), f))
  {
    char *p = line;
    if (p[0] == 'H' && p[1] == ' ')
      p += 2;
    unsigned idb, vm;
    int sf;
    char uname[128];
    if (3 == std::sscanf (p, "world %u %u %d", &idb, &vm, &sf))
    {
      jb.replay_idbits = idb;
      jb.replay_valmod = vm;
      jb.replay_stream_faults = sf != 0;
    }
    else if (1 == std::sscanf (p, "universe %127s", uname))
      jb.universe = uname;
    else
    {
      sim::op o;
      if (sim::op_from_text (p, o))
        jb.replay_ops.push_back (o);
    }
  }
  std::fclose (f);
  return true;
}

int
main (int argc, char **argv)
{
  std::set_terminate (on_terminate);
  std::signal (SIGSEGV, on_signal);
  std::signal (SIGBUS, on_signal);
  std::signal (SIGFPE, on_signal);
  std::signal (SIGABRT, on_signal);

  sim::job jb;
  std::string sigfile;
  bool list = false;
  for (int i = 1; i < argc; ++i)
  {
    const std::string a = argv[i];
    const char *v = (i + 1 < argc) ? argv[i + 1] : "";
    if (a == "--universe") { jb.universe = v; ++i; }
    else if (a == "--mode") { jb.mode = v; ++i; }
    else if (a == "--prop") { jb.prop = std::atoi (v); ++i; }
    else if (a == "--seed") { jb.seed_base = std::strtoull (v, 0, 10); ++i; }
    else if (a == "--runs")
    {
      unsigned long long lo = 0, hi = 0;
      std::sscanf (v, "%llu:%llu", &lo, &hi);
      jb.run_lo = lo; jb.run_hi = hi; ++i;
    }
    else if (a == "--faults") { jb.faults = std::atoi (v) != 0; ++i; }
    else if (a == "--nops") { jb.nops = static_cast<unsigned> (std::atoi (v)); ++i; }
    else if (a == "--samples") { jb.samples = static_cast<unsigned> (std::atoi (v)); ++i; }
    else if (a == "--pairs") { jb.pairs = std::atoi (v) != 0; ++i; }
    else if (a == "--sweep-mask") { jb.sweep_mask = static_cast<std::uint32_t> (std::strtoul (v, 0, 10)); ++i; }
    else if (a == "--long-n") { jb.long_n = std::strtoull (v, 0, 10); ++i; }
    else if (a == "--digests") { jb.digests = std::atoi (v) != 0; ++i; }
    else if (a == "--trace") { jb.trace_all = std::atoi (v) != 0; ++i; }
    else if (a == "--twin") { jb.twin = std::atoi (v) != 0; ++i; }
    else if (a == "--print-hist") { jb.print_hist = std::atoi (v) != 0; ++i; }
    else if (a == "--sigfile") { sigfile = v; ++i; }
    else if (a == "--known")
    {
      // oracle:kindname[,oracle:kindname...]; kindname '*' matches every op
      std::string s = v;
      std::size_t pos = 0;
      while (pos < s.size ())
      {
        std::size_t e = s.find (',', pos);
        if (e == std::string::npos)
          e = s.size ();
        const std::string item = s.substr (pos, e - pos);
        const std::size_t c = item.find (':');
        if (c != std::string::npos)
        {
          const std::string kn = item.substr (c + 1);
          jb.known.push_back (std::make_pair (item.substr (0, c),
                                              kn == "*" ? -1 : sim::op_kind_from_name (kn.c_str ())));
        }
        pos = e + 1;
      }
      ++i;
    }
    else if (a == "--replay")
    {
      jb.mode = "replay";
      if (! load_replay (v, jb))
      {
        std::fprintf (stderr, "cannot read replay file %s\n", v);
        return 2;
      }
      ++i;
    }
    else if (a == "--list") list = true;
    else
    {
      std::fprintf (stderr, "unknown argument %s\n", a.c_str ());
      return 2;
    }
  }

#if ! SVSIM_EXCEPTIONS
  // a build without exceptions cannot inject anything: fault-free plans only
  jb.faults = false;
  if (jb.mode == "sweep")
  {
    std::fprintf (stderr, "sweep mode needs a build with exceptions\n");
    return 2;
  }
  for (std::size_t i = 0; i < jb.replay_ops.size (); ++i)
    jb.replay_ops[i].f = sim::fault_plan ();
#endif

  std::vector<sim::universe_entry>& us = sim::universes ();
  if (list)
  {
    for (std::size_t i = 0; i < us.size (); ++i)
      std::printf ("%s %u\n", us[i].name, us[i].uid);
    return 0;
  }

  sim::totals tt;
  bool any = false;
  for (std::size_t i = 0; i < us.size () && ! tt.stop; ++i)
    if (jb.universe == "all" || jb.universe == us[i].name)
    {
      any = true;
      us[i].run (jb, tt, us[i].name, us[i].uid);
    }
  if (! any)
  {
    std::fprintf (stderr, "no universe named %s in this binary\n", jb.universe.c_str ());
    return 2;
  }

  if (! sigfile.empty ())
  {
    std::FILE *f = std::fopen (sigfile.c_str (), "w");
    if (f)
    {
      for (std::set<std::uint64_t>::const_iterator it = tt.sigs.begin (); it != tt.sigs.end (); ++it)
        std::fprintf (f, "%016llx\n", static_cast<unsigned long long> (*it));
      std::fclose (f);
    }
  }
  for (std::size_t i = 0; i < tt.samples.size (); ++i)
    std::printf ("SAMPLE %s\n", tt.samples[i].c_str ());
  sim::state& g = sim::G ();
  std::printf ("STATS runs=%llu evaluations=%llu ops=%llu faults_fired=%llu reallocs=%llu "
               "steals=%llu nontrivial=%llu distinct=%llu violations=%llu foreign=%llu",
               static_cast<unsigned long long> (tt.runs),
               static_cast<unsigned long long> (tt.evaluations),
               static_cast<unsigned long long> (tt.ops),
               static_cast<unsigned long long> (tt.faults_fired),
               static_cast<unsigned long long> (tt.reallocs),
               static_cast<unsigned long long> (tt.steals),
               static_cast<unsigned long long> (tt.nontrivial),
               static_cast<unsigned long long> (tt.sigs.size ()),
               static_cast<unsigned long long> (tt.violations),
               static_cast<unsigned long long> (tt.foreign));
  for (int k = 0; k < sim::EV_NKINDS; ++k)
    std::printf (" armed_%s=%llu fired_%s=%llu events_%s=%llu", sim::ev_name (k),
                 static_cast<unsigned long long> (g.tot_armed[k]), sim::ev_name (k),
                 static_cast<unsigned long long> (g.tot_fired[k]), sim::ev_name (k),
                 static_cast<unsigned long long> (g.tot_events[k]));
  for (int k = 0; k < sim::K_NKINDS; ++k)
    if (g.ops_by_kind[k] != 0)
    {
      std::printf (" op_%s=%llu", sim::op_name (k), static_cast<unsigned long long> (g.ops_by_kind[k]));
      for (int e = 0; e < sim::EV_NKINDS; ++e)
        if (g.fired_by_op[k][e] != 0)
          std::printf (" fo_%s_%s=%llu", sim::op_name (k), sim::ev_name (e),
                       static_cast<unsigned long long> (g.fired_by_op[k][e]));
    }
  for (std::size_t i = 0; i < tt.known_hits.size (); ++i)
    std::printf (" known_%lu=%u", static_cast<unsigned long> (i), tt.known_hits[i]);
  std::printf ("\n");
  if (tt.stop)
  {
    // after a violation the heap may be damaged: ask the driver to restart us behind that run
    std::printf ("RESTART %llu\n", static_cast<unsigned long long> (tt.next_index));
    std::fflush (stdout);
    _exit (3);
  }
  return 0;
}

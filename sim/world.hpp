// svsim world: a universe is one instantiation <E, Allocator, N0, N1, N2>; a world is four live
// containers (two of inline capacity N0, one N1, one N2) placement-constructed in canary-guarded
// boxes, each shadowed by a std::vector model.
#ifndef SVSIM_WORLD_HPP
#define SVSIM_WORLD_HPP

#include "ops.hpp"
#include "sim_alloc.hpp"
#include "sim_core.hpp"
#include "sim_elem.hpp"
#include "sim_iter.hpp"

#include <gch/small_vector.hpp>

#include <stdexcept>
#include <vector>

namespace sim
{

  struct MV
  {
    int  v;
    bool u; // unspecified (moved-from)
    MV (void) : v (0), u (false) { }
    MV (int v_, bool u_) : v (v_), u (u_) { }
  };

  inline bool operator== (const MV& a, const MV& b) { return a.v == b.v; }
  inline bool operator<  (const MV& a, const MV& b) { return a.v < b.v; }

  static const unsigned NSLOTS = 4;

  template <class V>
  struct slot_box
  {
    static const std::size_t CAN = 64;
    unsigned char pre[CAN];
    typename std::aligned_storage<sizeof (V), alignof (V)>::type obj;
    unsigned char post[CAN];

    slot_box (void)
    {
      std::memset (pre, CANARY_BYTE, CAN);
      std::memset (post, CANARY_BYTE, CAN);
    }

    V       *get (void)       { return reinterpret_cast<V *> (&obj); }
    const V *get (void) const { return reinterpret_cast<const V *> (&obj); }

    bool
    intact (void) const
    {
      for (std::size_t i = 0; i < CAN; ++i)
        if (pre[i] != CANARY_BYTE || post[i] != CANARY_BYTE)
          return false;
      return true;
    }

    bool
    contains (const void *p) const
    {
      const unsigned char *c = static_cast<const unsigned char *> (p);
      const unsigned char *b = reinterpret_cast<const unsigned char *> (&obj);
      return b <= c && c < b + sizeof (V);
    }
  };

  template <class E_, class A_, unsigned N0_, unsigned N1_, unsigned N2_, bool Big_ = false>
  struct universe
  {
    typedef E_ E;
    typedef A_ A;
    static const unsigned N0 = N0_;
    static const unsigned N1 = N1_;
    static const unsigned N2 = N2_;
    static const bool big = Big_; // size-arithmetic universe: operands cluster around max_size()
    typedef gch::small_vector<E, N0_, A> V0;
    typedef gch::small_vector<E, N1_, A> V1;
    typedef gch::small_vector<E, N2_, A> V2;
    typedef alloc_view<A>                AV;
    typedef typename AV::cfg             ACfg;

    static unsigned
    inline_cap (unsigned slot)
    {
      return slot < 2 ? N0_ : (slot == 2 ? N1_ : N2_);
    }

    static unsigned
    type_index (unsigned slot)
    {
      return slot < 2 ? 0 : slot - 1;
    }
  };

  // snapshot of one slot, taken before every op
  struct snap
  {
    std::size_t                size;
    std::size_t                cap;
    std::size_t                max_size;
    const void                *data;
    bool                       inlined;
    int                        alloc_id;
    std::vector<MV>            vals;
    std::vector<std::uint32_t> serials;
  };

  template <class U>
  struct world
  {
    typedef typename U::E  E;
    typedef typename U::A  A;
    typedef typename U::V0 V0;
    typedef typename U::V1 V1;
    typedef typename U::V2 V2;

    slot_box<V0> b0, b1;
    slot_box<V1> b2;
    slot_box<V2> b3;
    std::vector<MV> m[NSLOTS];
    int      exp_id[NSLOTS];
    bool     was_heap[NSLOTS];
    bool     was_inline[NSLOTS];
    bool     constructed;

    world (void) : constructed (false) { }

    template <class F>
    void
    visit (unsigned slot, F& f)
    {
      switch (slot % NSLOTS)
      {
        case 0:  f (*b0.get (), 0u); break;
        case 1:  f (*b1.get (), 1u); break;
        case 2:  f (*b2.get (), 2u); break;
        default: f (*b3.get (), 3u); break;
      }
    }

    template <class F, class VT>
    struct bind_first
    {
      F&       f;
      VT&      vt;
      unsigned t;
      bind_first (F& f_, VT& vt_, unsigned t_) : f (f_), vt (vt_), t (t_) { }
      template <class VS>
      void operator() (VS& vs, unsigned s) { f (vt, t, vs, s); }
    };

    template <class F>
    struct outer2
    {
      world&   w;
      unsigned s;
      F&       f;
      outer2 (world& w_, unsigned s_, F& f_) : w (w_), s (s_), f (f_) { }
      template <class VT>
      void
      operator() (VT& vt, unsigned t)
      {
        bind_first<F, VT> bf (f, vt, t);
        w.visit (s, bf);
      }
    };

    template <class F>
    void
    visit2 (unsigned t, unsigned s, F& f)
    {
      outer2<F> o (*this, s, f);
      visit (t, o);
    }

    bool
    box_contains (unsigned slot, const void *p) const
    {
      switch (slot % NSLOTS)
      {
        case 0:  return b0.contains (p);
        case 1:  return b1.contains (p);
        case 2:  return b2.contains (p);
        default: return b3.contains (p);
      }
    }

    bool
    boxes_intact (void) const
    {
      return b0.intact () && b1.intact () && b2.intact () && b3.intact ();
    }
  };

  // element <-> model helpers
  template <class V>
  inline void
  observe (const V& v, std::vector<MV>& out)
  {
    out.clear ();
    out.reserve (v.size ());
    for (std::size_t i = 0; i < v.size (); ++i)
      out.push_back (MV (static_cast<int> (v.data ()[i].value), elem_unspecified (v.data ()[i])));
  }

  template <class U, class V>
  inline void
  take_snap (const V& v, snap& s)
  {
    typedef typename U::AV AV;
    s.size     = v.size ();
    s.cap      = v.capacity ();
    s.max_size = v.max_size ();
    s.data     = v.data ();
    s.inlined  = v.inlined ();
    s.alloc_id = AV::id_of (v.get_allocator ());
    observe (v, s.vals);
    s.serials.clear ();
    s.serials.reserve (v.size ());
    for (std::size_t i = 0; i < v.size (); ++i)
      s.serials.push_back (elem_serial (v.data ()[i]));
  }

} // namespace sim

#endif

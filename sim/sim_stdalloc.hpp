// svsim: make std::allocator observable.  The header special-cases std::allocator<T> by type
// identity, so a wrapper would take other code paths.  std::allocator is therefore explicitly
// specialised for the *tagged* element types (program-defined types, [namespace.std]); the
// specialisation routes allocate/deallocate through the ledger and the fault plan.
#ifndef SVSIM_STDALLOC_HPP
#define SVSIM_STDALLOC_HPP

#include "sim_alloc.hpp"
#include "sim_elem.hpp"

namespace sim
{

  template <class T>
  struct tracked_std_alloc_base
  {
    typedef T              value_type;
    typedef std::size_t    size_type;
    typedef std::ptrdiff_t difference_type;
    typedef T             *pointer;
    typedef const T       *const_pointer;
    typedef T&             reference;
    typedef const T&       const_reference;
    typedef std::true_type propagate_on_container_move_assignment;
    typedef std::true_type is_always_equal;
    typedef void           svsim_tracked;

    T *
    allocate (std::size_t n)
    {
      state& g = G ();
      if (g.in_op)
      {
        alloc_call c;
        c.id = 0;
        c.n  = n;
        g.allocs.push_back (c);
      }
      on_event (EV_ALLOC);
      return static_cast<T *> (ledger_allocate (n, sizeof (T), 0, true));
    }

    T *allocate (std::size_t n, const void *) { return allocate (n); }

    void
    deallocate (T *p, std::size_t n) noexcept
    {
      ledger_deallocate (p, n, 0, true);
    }

    std::size_t
    max_size (void) const noexcept
    {
      return static_cast<std::size_t> (-1) / sizeof (T);
    }

    template <class U, class... Args>
    void
    construct (U *p, Args&&... args)
    {
      ::new (static_cast<void *> (p)) U (std::forward<Args> (args)...);
    }

    template <class U>
    void
    destroy (U *p)
    {
      p->~U ();
    }
  };

} // namespace sim

// std::allocator lost its `rebind` member in C++20; mirror the primary template.
#if __cplusplus <= 201703L
#  define SVSIM_STD_REBIND                                                                  \
      template <class U>                                                                    \
      struct rebind                                                                         \
      {                                                                                     \
        typedef allocator<U> other;                                                         \
      };
#else
#  define SVSIM_STD_REBIND
#endif

#define SVSIM_SPECIALISE_STD_ALLOCATOR(T)                                                   \
  namespace std                                                                             \
  {                                                                                         \
    template <>                                                                             \
    class allocator<T> : public sim::tracked_std_alloc_base<T>                              \
    {                                                                                       \
    public:                                                                                 \
      SVSIM_STD_REBIND                                                                      \
      allocator (void) noexcept { }                                                         \
      allocator (const allocator&) noexcept { }                                             \
      template <class U>                                                                    \
      allocator (const allocator<U>&) noexcept { }                                          \
      allocator& operator= (const allocator&) noexcept { return *this; }                    \
    };                                                                                      \
  }

SVSIM_SPECIALISE_STD_ALLOCATOR (sim::elem_nm<1>)
SVSIM_SPECIALISE_STD_ALLOCATOR (sim::elem_tm<1>)
SVSIM_SPECIALISE_STD_ALLOCATOR (sim::elem_tc<1>)

#endif

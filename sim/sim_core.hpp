// svsim core: PRNG, fault plan, event accounting, violation record.
// C++11 subset on purpose: this file is compiled under -std=c++11 ... c++23 (property C17).
#ifndef SVSIM_CORE_HPP
#define SVSIM_CORE_HPP

#include <cstdarg>
#include <cstddef>
#include <cstdint>
#include <cstdio>
#include <cstdlib>
#include <cstring>
#include <exception>
#include <new>
#include <string>
#include <vector>

// The engine also builds with -fno-exceptions (flavour nx20: the header's GCH_EXCEPTIONS-off
// branches; fault-free plans only). Braces are mandatory after these macros.
#if defined (__cpp_exceptions) || defined (__EXCEPTIONS)
#  define SVSIM_EXCEPTIONS 1
#  define SVSIM_TRY try
#  define SVSIM_CATCH_ALL catch (...)
#  define SVSIM_RETHROW throw
#else
#  define SVSIM_EXCEPTIONS 0
#  define SVSIM_TRY if (true)
#  define SVSIM_CATCH_ALL else
#  define SVSIM_RETHROW std::abort ()
#endif

namespace sim
{

  // ---------------------------------------------------------------- PRNG
  // Hand written so that a seed means the same history under every compiler and -std.
  inline std::uint64_t
  splitmix64 (std::uint64_t& x)
  {
    x += 0x9E3779B97F4A7C15ULL;
    std::uint64_t z = x;
    z = (z ^ (z >> 30)) * 0xBF58476D1CE4E5B9ULL;
    z = (z ^ (z >> 27)) * 0x94D049BB133111EBULL;
    return z ^ (z >> 31);
  }

  inline std::uint64_t
  mix3 (std::uint64_t a, std::uint64_t b, std::uint64_t c)
  {
    std::uint64_t x = a * 0x9E3779B97F4A7C15ULL + 0x1234567ULL;
    std::uint64_t r = splitmix64 (x);
    x ^= b * 0xD1B54A32D192ED03ULL;
    r ^= splitmix64 (x);
    x ^= c * 0x8CB92BA72F3D8DD7ULL;
    r ^= splitmix64 (x);
    return r;
  }

  struct rng
  {
    std::uint64_t s[4];

    explicit
    rng (std::uint64_t seed = 1)
    {
      reseed (seed);
    }

    void
    reseed (std::uint64_t seed)
    {
      std::uint64_t x = seed;
      for (int i = 0; i < 4; ++i)
        s[i] = splitmix64 (x);
    }

    static std::uint64_t
    rotl (std::uint64_t x, int k)
    {
      return (x << k) | (x >> (64 - k));
    }

    std::uint64_t
    next (void)
    {
      const std::uint64_t result = rotl (s[1] * 5, 7) * 9;
      const std::uint64_t t = s[1] << 17;
      s[2] ^= s[0];
      s[3] ^= s[1];
      s[1] ^= s[2];
      s[0] ^= s[3];
      s[2] ^= t;
      s[3] = rotl (s[3], 45);
      return result;
    }

    std::uint32_t
    u32 (void)
    {
      return static_cast<std::uint32_t> (next () >> 32);
    }

    // uniform in [0, n); n == 0 gives 0.  (multiply-shift; bias is irrelevant here.)
    std::uint32_t
    below (std::uint32_t n)
    {
      const std::uint64_t r = next () >> 32;
      return static_cast<std::uint32_t> ((r * n) >> 32);
    }

    bool
    chance (std::uint32_t num, std::uint32_t den)
    {
      return below (den) < num;
    }
  };

  // ---------------------------------------------------------------- events & faults
  enum ev_kind
  {
    EV_ALLOC = 0,
    EV_CTOR_DEFAULT,
    EV_CTOR_VALUE,
    EV_CTOR_COPY,
    EV_CTOR_MOVE,
    EV_ASSIGN_COPY,
    EV_ASSIGN_MOVE,
    EV_ITER_DEREF,
    EV_ITER_INC,
    EV_GEN_CALL,
    EV_SWAP,      // user-provided ADL swap of the element type
    EV_COMPARE,   // operator== / operator< of the element type
    EV_PRED,      // caller's predicate (erase_if)
    EV_ALLOC_CONSTRUCT, // the allocator's own construct() member (may throw although T's constructor cannot)
    EV_NKINDS
  };

  inline const char *
  ev_name (int k)
  {
    static const char *const names[] = { "alloc", "ctor_default", "ctor_value", "ctor_copy",
                                         "ctor_move", "assign_copy", "assign_move",
                                         "iter_deref", "iter_inc", "gen_call", "swap", "compare", "pred",
                                         "alloc_construct" };
    return (0 <= k && k < EV_NKINDS) ? names[k] : "?";
  }

  static const std::uint32_t MASK_ALL = (1u << EV_NKINDS) - 1;
  static const std::uint32_t MASK_CTORS = (1u << EV_CTOR_DEFAULT) | (1u << EV_CTOR_VALUE)
                                          | (1u << EV_CTOR_COPY) | (1u << EV_CTOR_MOVE);
  // the kinds C05 talks about: "an element constructor or the allocator"
  static const std::uint32_t MASK_C05 = MASK_CTORS | (1u << EV_ALLOC) | (1u << EV_ALLOC_CONSTRUCT);

  struct fault_plan
  {
    std::uint32_t mask;  // eligible kinds for the first throw
    std::int32_t  k;     // throw at the k-th eligible event (0-based); < 0: no fault
    std::uint32_t mask2; // eligible kinds for a second throw after the first has fired
    std::int32_t  j;     // throw at the j-th eligible event after the first; < 0: none

    fault_plan (void) : mask (0), k (-1), mask2 (0), j (-1) { }
  };

  struct injected_fault : std::exception
  {
    int kind;
    explicit injected_fault (int k) : kind (k) { }
    const char *what (void) const noexcept { return "svsim injected fault"; }
  };

  struct injected_bad_alloc : std::bad_alloc
  {
    const char *what (void) const noexcept { return "svsim injected bad_alloc"; }
  };

  // per-address element events of the operation in flight (C09/C10 oracles)
  enum elem_ev
  {
    EE_CONSTRUCT = 0,
    EE_DESTROY,
    EE_ASSIGNED_TO,
    EE_MOVED_FROM,
    EE_READ
  };

  struct elem_event
  {
    const void *addr;
    int         what;
  };

  // property ids as bits
  enum
  {
    P01 = 1, P02, P03, P04, P05, P06, P07, P08, P09, P10, P11, P12, P13, P14, P15, P16, P17, P18
  };

  inline std::uint32_t pbit (int p) { return 1u << p; }

  struct alloc_call
  {
    int         id;
    std::size_t n;
  };

  struct state
  {
    // --- fault machinery
    bool          in_op;
    bool          armed;
    std::uint32_t mask;
    std::int32_t  countdown;
    std::uint32_t mask2;
    std::int32_t  j;
    int           fired;
    int           fired_kind[2];
    bool          construct_is_move;       // set by the allocator's construct() before its event
    bool          fired_construct_move;    // the first fired alloc_construct fault was a move construction
    std::uint64_t ev_count[EV_NKINDS]; // all events seen while in_op
    std::uint64_t eligible1;           // events matching `mask` seen before the first throw
    std::uint64_t eligible2;           // events matching `mask2` seen after the first throw
    std::uint64_t throwing_events;     // events of operations that are allowed to throw
    std::uint64_t construct_in_noexcept; // allocator construct() calls inside a call declared noexcept
    bool          had_plan;            // the op in flight carries a fault plan
    std::uint64_t eligible1_last;      // eligible1 / eligible2 of the last op that had a plan
    std::uint64_t eligible2_last;
    std::uint32_t count_mask2;         // when no second fault is planned, still count these
    bool          unwinding;           // between first throw and end of op

    // --- per-op seam recordings
    std::vector<elem_event> elog;
    bool                    elog_overflow;
    std::vector<alloc_call> allocs;   // allocate() calls of the op in flight
    std::vector<int>        cd_ids;   // ids of the allocators whose construct()/destroy() ran in it
    struct cd_event { const void *p; int id; bool destroy; };
    std::vector<cd_event>   cd_events; // every construct()/destroy() call of the op: where, by whom
    unsigned                deallocs;

    // --- violations of the step in flight (the first one decides minimisation; the others are
    //     reported with it so that every property that owns one of them sees it)
    struct extra_violation { std::string oracle, msg; std::uint32_t props; };
    std::vector<extra_violation> also;
    bool          violated;
    std::string   v_oracle;
    std::string   v_msg;
    std::uint32_t v_props;
    std::uint32_t ctx_props; // extra properties that own violations raised inside the current op
    std::uint32_t universe_props; // extra owners of wrong-result (model.*) violations in this universe:
                                  // C13 for trivially copyable elements, C12 for narrow size types

    // --- terminate attribution
    const char *cur_op_name;
    int         cur_op_index;
    bool        cur_noexcept_declared;

    // --- totals for evidence
    std::uint64_t tot_armed[EV_NKINDS];
    std::uint64_t tot_fired[EV_NKINDS];
    std::uint64_t tot_events[EV_NKINDS];
    std::uint64_t fired_by_op[64][EV_NKINDS]; // reach probe: faults that reached the caller, per op kind
    std::uint64_t ops_by_kind[64];

    state (void)
      : in_op (false), armed (false), mask (0), countdown (-1), mask2 (0), j (-1), fired (0),
        eligible1 (0), eligible2 (0), throwing_events (0), construct_in_noexcept (0), had_plan (false), eligible1_last (0), eligible2_last (0), count_mask2 (0), unwinding (false), elog_overflow (false),
        deallocs (0), violated (false), v_props (0), ctx_props (0), universe_props (0), cur_op_name (""),
        cur_op_index (-1), cur_noexcept_declared (false)
    {
      fired_kind[0] = fired_kind[1] = -1;
      construct_is_move = fired_construct_move = false;
      for (int i = 0; i < EV_NKINDS; ++i)
        ev_count[i] = tot_armed[i] = tot_fired[i] = tot_events[i] = 0;
      for (int k = 0; k < 64; ++k)
      {
        ops_by_kind[k] = 0;
        for (int i = 0; i < EV_NKINDS; ++i)
          fired_by_op[k][i] = 0;
      }
    }
  };

  state& G (void);

  inline std::uint32_t
  props_of_oracle (const char *oracle)
  {
    struct row { const char *prefix; int p; };
    static const row rows[] = {
      { "model.", P01 }, { "inv.", P02 }, { "life.", P03 }, { "mem.", P04 }, { "strong.", P05 },
      { "basic.", P06 }, { "alloc.", P07 }, { "cx.", P08 }, { "steal.", P09 },
      { "stable.", P10 }, { "alias.", P11 }, { "max.", P12 }, { "twin.", P13 },
      { "bytes.", P13 }, { "conv.", P13 }, { "arch.", P13 }, { "growth.", P14 },
      { "stream.", P15 }, { "fwd.", P15 }, { "gen.", P15 }, { "cmp.", P16 }, { "nm.", P16 },
      { "std.", P17 }, { "noexcept.", P18 }
    };
    // a block held by / freed through an allocator that is not equal to the one that produced it
    // breaks the ownership clauses of C02 and C04 and C07's "all later storage traffic uses the
    // container's current allocator"
    if (0 == std::strcmp (oracle, "inv.block_owner") || 0 == std::strcmp (oracle, "mem.unequal_alloc"))
      return pbit (P02) | pbit (P04) | pbit (P07);
    for (unsigned i = 0; i < sizeof (rows) / sizeof (rows[0]); ++i)
      if (0 == std::strncmp (oracle, rows[i].prefix, std::strlen (rows[i].prefix)))
        return pbit (rows[i].p);
    return 0;
  }

  // Record a violation. Never throws (it may be called from inside noexcept library code).
  inline void
  violate (const char *oracle, const char *fmt, ...)
  {
    state& g = G ();
    char buf[512];
    va_list ap;
    va_start (ap, fmt);
    std::vsnprintf (buf, sizeof (buf), fmt, ap);
    va_end (ap);
    std::uint32_t props = props_of_oracle (oracle) | g.ctx_props;
    if (0 == std::strncmp (oracle, "model.", 6))
      props |= g.universe_props;
    // the allocator's view of lifetimes differing for a trivially copyable element is also a
    // C13 matter (a shortcut for trivial types became observable)
    if (0 == std::strcmp (oracle, "life.alloc_balance"))
      props |= g.universe_props & pbit (P13);
    if (g.fired > 0)
      props |= pbit (P06); // raised while unwinding from an injected fault
    if (g.violated)
    {
      if (g.also.size () < 12)
      {
        state::extra_violation e;
        e.oracle = oracle;
        e.msg    = buf;
        e.props  = props;
        g.also.push_back (e);
      }
      return;
    }
    g.violated = true;
    g.v_oracle = oracle;
    g.v_msg    = buf;
    g.v_props  = props;
  }

  inline void
  fire (int kind)
  {
    state& g = G ();
    g.fired_kind[g.fired < 2 ? g.fired : 1] = kind;
    if (g.fired == 0)
      g.fired_construct_move = kind == EV_ALLOC_CONSTRUCT && g.construct_is_move;
    ++g.fired;
    ++g.tot_fired[kind];
    g.unwinding = true;
    if (g.fired == 1 && 0 <= g.j && g.mask2 != 0)
    {
      g.mask      = g.mask2;
      g.countdown = g.j;
      g.mask2     = 0;
      g.j         = -1;
    }
    else
      g.armed = false;
#if SVSIM_EXCEPTIONS
    if (kind == EV_ALLOC)
      throw injected_bad_alloc ();
    throw injected_fault (kind);
#else
    std::abort (); // no fault plan is ever armed in a build without exceptions
#endif
  }

  // An event that is allowed to throw.
  inline void
  on_event (int kind)
  {
    state& g = G ();
    if (! g.in_op)
      return;
    ++g.ev_count[kind];
    if (kind == EV_ALLOC_CONSTRUCT && g.cur_noexcept_declared)
    {
      // recorded, judged after the call (oracle noexcept.alloc_construct), never thrown: throwing
      // here would only turn the report into a std::terminate of the worker
      ++g.construct_in_noexcept;
      return;
    }
    ++g.throwing_events;
    if (g.fired == 0)
    {
      if (g.mask & (1u << kind))
        ++g.eligible1;
    }
    else if (g.count_mask2 & (1u << kind))
      ++g.eligible2;
    if (! g.armed || ! (g.mask & (1u << kind)))
      return;
    if (g.countdown == 0)
      fire (kind);
    if (0 < g.countdown)
      --g.countdown;
  }

  inline void
  note_construct_destroy_id (int id, const void *p = 0, bool destroy = false) noexcept
  {
    state& g = G ();
    if (! g.in_op)
      return;
    if (g.cd_events.size () < 4096)
    {
      state::cd_event e;
      e.p       = p;
      e.id      = id;
      e.destroy = destroy;
      g.cd_events.push_back (e);
    }
    for (std::size_t i = 0; i < g.cd_ids.size (); ++i)
      if (g.cd_ids[i] == id)
        return;
    if (g.cd_ids.size () < 8)
      g.cd_ids.push_back (id);
  }

  // An event of a noexcept operation: counted, never thrown.
  inline void
  on_event_nothrow (int kind) noexcept
  {
    state& g = G ();
    if (g.in_op)
      ++g.ev_count[kind];
  }

  inline void
  log_elem (const void *addr, int what) noexcept
  {
    state& g = G ();
    if (! g.in_op)
      return;
    if (g.elog.size () >= 8192)
    {
      g.elog_overflow = true;
      return;
    }
    elem_event e;
    e.addr = addr;
    e.what = what;
    g.elog.push_back (e);
  }

  inline void
  begin_op (const fault_plan& f, std::uint32_t count_mask1, std::uint32_t count_mask2,
            bool noexcept_declared = false)
  {
    state& g = G ();
    g.cur_noexcept_declared = noexcept_declared;
    g.construct_in_noexcept = 0;
    for (int i = 0; i < EV_NKINDS; ++i)
      g.ev_count[i] = 0;
    g.fired         = 0;
    g.fired_kind[0] = g.fired_kind[1] = -1;
    g.construct_is_move = g.fired_construct_move = false;
    g.eligible1 = g.eligible2 = 0;
    g.throwing_events = 0;
    g.unwinding     = false;
    g.elog.clear ();
    g.elog_overflow = false;
    g.allocs.clear ();
    g.cd_ids.clear ();
    g.cd_events.clear ();
    g.deallocs      = 0;
    g.count_mask2   = count_mask2;
    g.had_plan = (0 <= f.k && f.mask != 0);
    if (g.had_plan)
    {
      g.armed     = true;
      g.mask      = f.mask;
      g.countdown = f.k;
      g.mask2     = f.mask2;
      g.j         = f.j;
      for (int i = 0; i < EV_NKINDS; ++i)
        if (f.mask & (1u << i))
          ++g.tot_armed[i];
    }
    else
    {
      g.armed     = false;
      g.mask      = count_mask1; // counting only
      g.countdown = -1;
      g.mask2     = 0;
      g.j         = -1;
    }
    g.in_op = true;
  }

  inline void
  end_op (void)
  {
    state& g = G ();
    g.in_op = false;
    g.armed = false;
    if (g.had_plan)
    {
      g.eligible1_last = g.eligible1;
      g.eligible2_last = g.eligible2;
    }
    for (int i = 0; i < EV_NKINDS; ++i)
      g.tot_events[i] += g.ev_count[i];
  }

  // FNV-1a, used for run signatures and trace digests (never fed with addresses).
  struct hasher
  {
    std::uint64_t h;
    hasher (void) : h (0xcbf29ce484222325ULL) { }
    void byte (unsigned char b) { h = (h ^ b) * 0x100000001b3ULL; }
    void u64 (std::uint64_t v) { for (int i = 0; i < 8; ++i) byte (static_cast<unsigned char> (v >> (8 * i))); }
    void str (const char *s) { for (; *s; ++s) byte (static_cast<unsigned char> (*s)); byte (0); }
  };

} // namespace sim

#endif

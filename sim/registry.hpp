// svsim universe registry: every universe TU registers one entry.
#ifndef SVSIM_REGISTRY_HPP
#define SVSIM_REGISTRY_HPP

#include "runner.hpp"

namespace sim
{

  struct universe_entry
  {
    const char *name;
    unsigned    uid;
    void (*run) (const job&, totals&, const char *, unsigned);
  };

  std::vector<universe_entry>& universes (void);

  struct universe_registrar
  {
    universe_registrar (const char *name, unsigned uid,
                        void (*run) (const job&, totals&, const char *, unsigned))
    {
      universe_entry e;
      e.name = name;
      e.uid  = uid;
      e.run  = run;
      universes ().push_back (e);
    }
  };

  template <class U>
  void
  run_universe (const job& j, totals& t, const char *name, unsigned uid)
  {
    runner<U> r (j, t, name, uid);
    r.run ();
  }

} // namespace sim

#define SVSIM_REGISTER(NAME, UID)                                                          \
  static sim::universe_registrar svsim_registrar_ (NAME, UID, &sim::run_universe<U>);

#endif

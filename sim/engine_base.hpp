// svsim engine, part 1: per-op record (interpreted operands, descriptor, outcome), run
// configuration, source-range builder.
#ifndef SVSIM_ENGINE_BASE_HPP
#define SVSIM_ENGINE_BASE_HPP

#include "world.hpp"

#include <algorithm>
#include <initializer_list>

namespace sim
{

  enum outcome_t
  {
    OUT_OK = 0,
    OUT_FAULT,     // an injected fault reached the caller
    OUT_LENGTH,    // std::length_error
    OUT_RANGE,     // std::out_of_range
    OUT_OTHER,     // any other exception
    OUT_SKIPPED    // op not applicable in this state (e.g. pop_back on empty)
  };

  enum model_action
  {
    MA_NONE = 0,
    MA_INSERT,      // insert vals at pos
    MA_ERASE,       // erase [first, last)
    MA_ASSIGN,      // replace contents by vals
    MA_RESIZE,      // resize to count with fillval
    MA_COPY_FROM,   // t = copy of s
    MA_MOVE_FROM,   // t = contents of s, s unspecified (resync)
    MA_SWAP,
    MA_APPEND_MOVE, // t += s, s cleared
    MA_ERASE_VALUE,
    MA_ERASE_IF
  };

  enum id_rule
  {
    ID_KEEP = 0,
    ID_DEFAULT,
    ID_SUPPLIED,
    ID_SOCCC_OF_SRC,
    ID_SRC,
    ID_POCCA,
    ID_POCMA,
    ID_POCS
  };

  enum steal_kind
  {
    ST_NONE = 0,
    ST_MOVE_CTOR,
    ST_MOVE_CTOR_EXT,
    ST_MOVE_ASSIGN,
    ST_SWAP
  };

  struct op_info
  {
    int      kind;
    unsigned t, s;
    bool     binary;
    int      outcome;
    int      fault_kind;

    // model action
    int             action;
    std::size_t     pos, first, last, count;
    std::vector<MV> vals;
    MV              fillval;
    int             erase_value, erase_mod, erase_rem;

    // expectations
    bool        size_known;
    std::size_t exp_size1;     // resulting size of t on success
    std::size_t req_cap;       // requested capacity (reserve), else 0
    bool        has_ret;
    std::size_t exp_ret;       // expected returned iterator index / count
    std::size_t ret;           // observed
    bool        ret_ref_ok;

    // descriptor (appendix E of DESIGN.md)
    bool        is_ctor, strong, capdata, c10, may_alloc_fits, growth, sized, alias, single_pass;
    bool        shrinking;     // pop_back / erase / clear: cap and data never change
    bool        observer;
    bool        src_strong;    // append (small_vector&&): source unchanged on failure too
    bool        noexcept_declared;
    std::size_t first_mod;
    std::size_t alias_index;
    int         steal;
    int         idrule;
    int         supplied_id;
    int         range_kind;
    std::size_t range_len;

    char text[160];

    void
    reset (int k, unsigned t_, unsigned s_)
    {
      kind = k; t = t_; s = s_; binary = false; outcome = OUT_OK; fault_kind = -1;
      action = MA_NONE; pos = first = last = count = 0; vals.clear (); fillval = MV ();
      erase_value = erase_mod = erase_rem = 0;
      size_known = false; exp_size1 = 0; req_cap = 0; has_ret = false; exp_ret = ret = 0;
      ret_ref_ok = true;
      is_ctor = strong = capdata = c10 = may_alloc_fits = growth = sized = alias = false;
      single_pass = shrinking = observer = src_strong = noexcept_declared = false;
      first_mod = 0; alias_index = 0; steal = ST_NONE; idrule = ID_KEEP; supplied_id = -1;
      range_kind = -1; range_len = 0;
      text[0] = 0;
    }
  };

  struct run_cfg
  {
    unsigned      valmod;       // values are (base + i) % valmod
    bool          faults;       // storm: attach fault plans to ops
    unsigned      nops;
    int           profile;      // op-kind weights (see gen.hpp)
    std::uint32_t count_mask1;  // kinds counted as eligible before the first throw
    std::uint32_t count_mask2;
    bool          stream_faults;// iterator / generator events are fault eligible
    bool          clear_moved_from; // twin mode: the history clears the source of every move
    unsigned      size_cap;     // histories keep containers below this size (64; some runs 600)

    run_cfg (void)
      : valmod (120), faults (false), nops (20), profile (0), count_mask1 (MASK_ALL),
        count_mask2 (MASK_ALL), stream_faults (true), clear_moved_from (false), size_cap (64)
    { }
  };

  struct op_guard
  {
    op_guard (const fault_plan& f, std::uint32_t m1, std::uint32_t m2, bool noexcept_declared = false)
    {
      begin_op (f, m1, m2, noexcept_declared);
    }
    ~op_guard (void) { end_op (); }
  };

  // A source range owned by the harness. One spare cell so that a (recorded) past-the-end
  // dereference does not itself read out of bounds.
  template <class E>
  struct src_range
  {
    std::vector<E>   elems;
    std::vector<int> ints;
    range_state      st;
    bool             use_ints;

    src_range (const std::vector<int>& vals, bool ints_, bool single_pass, bool may_throw)
      : st (vals.size (), single_pass, may_throw), use_ints (ints_)
    {
      if (use_ints)
      {
        ints = vals;
        ints.push_back (-1);
      }
      else
      {
        elems.reserve (vals.size () + 1);
        for (std::size_t i = 0; i < vals.size (); ++i)
          elems.emplace_back (vals[i]);
        elems.emplace_back (-1);
      }
    }
  };

  inline bool
  rk_is_single_pass (int rk)
  {
    return rk == RK_INPUT_E || rk == RK_INPUT_INT || rk == RK_MOVE_INPUT_E;
  }

  inline bool
  rk_is_int (int rk)
  {
    return rk == RK_INPUT_INT || rk == RK_FORWARD_INT || rk == RK_PTR_INT;
  }

  inline int
  rk_remap_for_move_only (int rk)
  {
    switch (rk)
    {
      case RK_INPUT_E:   return RK_INPUT_INT;
      case RK_FORWARD_E:
      case RK_BIDIR_E:
      case RK_RANDOM_E:  return RK_FORWARD_INT;
      case RK_PTR_E:     return RK_MOVE_PTR_E;
      case RK_SV_ITER:   return RK_PTR_INT;
      default:           return rk;
    }
  }

  // insert (pos, first, last) assigns *first to existing elements, so the harness only hands it
  // ranges whose reference type is assignable to E (see DESIGN.md, observation on int ranges).
  inline int
  rk_remap_for_insert (int rk, bool copyable)
  {
    switch (rk)
    {
      case RK_INPUT_INT:   return copyable ? RK_INPUT_E : RK_MOVE_INPUT_E;
      case RK_FORWARD_INT: return copyable ? RK_FORWARD_E : RK_MOVE_PTR_E;
      case RK_PTR_INT:     return copyable ? RK_PTR_E : RK_MOVE_PTR_E;
      default:             return rk;
    }
  }

  // Check what the container did with a simulated range (C15).
  inline void
  verify_range_use (const range_state& st, bool completed, const char *opname)
  {
    if (st.stale_use)
      violate ("stream.stale_copy", "%s used a copy of an already-advanced single-pass iterator",
               opname);
    if (st.past_end_deref)
      violate (st.single_pass ? "stream.past_end" : "fwd.past_end",
               "%s dereferenced at or beyond last", opname);
    if (st.past_end_inc)
      violate (st.single_pass ? "stream.past_end" : "fwd.past_end",
               "%s advanced an iterator beyond last", opname);
    if (st.before_begin)
      violate ("fwd.past_end", "%s moved an iterator before first", opname);
    if (! st.single_pass)
      return;
    // single pass: every consumed position dereferenced once and incremented once, in order
    for (std::size_t i = 0; i < st.len; ++i)
    {
      const bool consumed = i < st.cursor;
      if (st.derefs[i] > 1)
        violate ("stream.multi_deref", "%s dereferenced stream position %lu %u times", opname,
                 static_cast<unsigned long> (i), st.derefs[i]);
      if (st.incs[i] > 1)
        violate ("stream.multi_inc", "%s incremented stream position %lu %u times", opname,
                 static_cast<unsigned long> (i), st.incs[i]);
      if (consumed && st.derefs[i] == 0)
        violate ("stream.no_deref", "%s skipped stream position %lu without reading it", opname,
                 static_cast<unsigned long> (i));
    }
    for (std::size_t i = 0; i + 1 < st.order.size (); ++i)
      if (st.order[i] > st.order[i + 1])
        violate ("stream.order", "%s read the stream out of order", opname);
    if (completed && st.cursor != st.len)
      violate ("stream.no_deref", "%s returned normally having consumed %lu of %lu stream items",
               opname, static_cast<unsigned long> (st.cursor), static_cast<unsigned long> (st.len));
  }

} // namespace sim

#endif

// svsim allocator seam: configurable allocator + block ledger with canaries.
#ifndef SVSIM_ALLOC_HPP
#define SVSIM_ALLOC_HPP

#include "sim_core.hpp"

#include <limits>
#include <memory>
#include <type_traits>
#include <unordered_map>

namespace sim
{

  static const std::size_t  REDZONE      = 32;
  static const unsigned char CANARY_BYTE = 0xA5;
  static const unsigned char FRESH_BYTE  = 0xCD;
  static const unsigned char FREED_BYTE  = 0xDD;

  struct block_info
  {
    std::size_t n;         // element count requested
    std::size_t elem_size;
    int         id;        // allocator id that produced it
    bool        always_equal;
  };

  struct ledger
  {
    std::unordered_map<const void *, block_info> live;
    std::uint64_t allocated;
    std::uint64_t freed;
    bool          counters_only;

    ledger (void) : allocated (0), freed (0), counters_only (false) { }

    const block_info *
    find (const void *p) const
    {
      std::unordered_map<const void *, block_info>::const_iterator it = live.find (p);
      return it == live.end () ? static_cast<const block_info *> (0) : &it->second;
    }

    std::size_t live_count (void) const { return live.size (); }

    void reset (void) { live.clear (); allocated = freed = 0; }
  };

  ledger& L (void);

  inline bool
  canaries_intact (const void *user, std::size_t bytes)
  {
    const unsigned char *p = static_cast<const unsigned char *> (user);
    for (std::size_t i = 0; i < REDZONE; ++i)
      if (p[-static_cast<std::ptrdiff_t> (i) - 1] != CANARY_BYTE || p[bytes + i] != CANARY_BYTE)
        return false;
    return true;
  }

  inline void *
  ledger_allocate (std::size_t n, std::size_t elem_size, int id, bool always_equal)
  {
    const std::size_t bytes = n * elem_size;
    unsigned char *raw = static_cast<unsigned char *> (std::malloc (bytes + 2 * REDZONE));
    if (raw == 0)
    {
#if SVSIM_EXCEPTIONS
      throw std::bad_alloc ();
#else
      std::abort ();
#endif
    }
    std::memset (raw, CANARY_BYTE, REDZONE);
    std::memset (raw + REDZONE, FRESH_BYTE, bytes);
    std::memset (raw + REDZONE + bytes, CANARY_BYTE, REDZONE);
    void *user = raw + REDZONE;
    block_info b;
    b.n            = n;
    b.elem_size    = elem_size;
    b.id           = id;
    b.always_equal = always_equal;
    L ().live[user] = b;
    ++L ().allocated;
    return user;
  }

  inline void
  ledger_deallocate (void *user, std::size_t n, int id, bool always_equal) noexcept
  {
    ledger& l = L ();
    std::unordered_map<const void *, block_info>::iterator it = l.live.find (user);
    ++G ().deallocs;
    if (it == l.live.end ())
    {
      violate ("mem.unknown_block", "deallocate of a block that is not live (n=%lu id=%d op %s)",
               static_cast<unsigned long> (n), id, G ().cur_op_name);
      return; // do not free: unknown memory
    }
    const block_info b = it->second;
    if (b.n != n)
      violate ("mem.wrong_n", "deallocate(n=%lu) of a block allocated with n=%lu (op %s)",
               static_cast<unsigned long> (n), static_cast<unsigned long> (b.n),
               G ().cur_op_name);
    if (! always_equal && b.id != id)
      violate ("mem.unequal_alloc", "block of allocator id=%d freed through id=%d (op %s)", b.id,
               id, G ().cur_op_name);
    if (! canaries_intact (user, b.n * b.elem_size))
      violate ("bytes.redzone", "bytes next to a heap block of %lu elements were overwritten "
               "(op %s)", static_cast<unsigned long> (b.n), G ().cur_op_name);
    l.live.erase (it);
    ++l.freed;
    std::memset (user, FREED_BYTE, b.n * b.elem_size);
    std::free (static_cast<unsigned char *> (user) - REDZONE);
  }

  // ---------------------------------------------------------------- configuration
  // SOCCC toggle: select_on_container_copy_construction() maps id 1 <-> 2 (others unchanged).
  inline int
  soccc_toggle (int id)
  {
    return (id == 1) ? 2 : (id == 2) ? 1 : id;
  }

  template <bool Pocca, bool Pocma, bool Pocs, bool AlwaysEqual, class SizeT = std::size_t,
            unsigned long MaxSize = 0, bool SocccToggle = false, int ConstructMembers = 0,
            bool Hint = false>
  struct alloc_cfg
  {
    static const bool pocca             = Pocca;
    static const bool pocma             = Pocma;
    static const bool pocs              = Pocs;
    static const bool always_equal      = AlwaysEqual;
    static const bool soccc_toggles     = SocccToggle;
    // 0: none; 1: variadic construct (p, args...) + destroy (p); 2: C++03 style construct (p, const T&)
    // + destroy (p) only (every other construction is the container's own placement new)
    static const int  construct_mode    = ConstructMembers;
    static const bool construct_members = ConstructMembers != 0;
    static const bool has_max_size      = (MaxSize != 0);
    static const bool has_hint          = Hint;
    static const unsigned long max_size_value = MaxSize;
    static const bool is_std            = false;
    typedef SizeT size_type;
  };

  struct construct_stats
  {
    std::uint64_t constructs;
    std::uint64_t destroys;
    construct_stats (void) : constructs (0), destroys (0) { }
  };

  construct_stats& CS (void);

  template <class T, class Cfg>
  class sim_alloc;

  // optional members are supplied through bases selected by the configuration
  template <class T, class Cfg, bool Has = Cfg::has_max_size>
  struct alloc_max_size_mixin
  { };

  template <class T, class Cfg>
  struct alloc_max_size_mixin<T, Cfg, true>
  {
    typename Cfg::size_type
    max_size (void) const noexcept
    {
      return static_cast<typename Cfg::size_type> (Cfg::max_size_value);
    }
  };

  template <class T, class Cfg, int Mode = Cfg::construct_mode>
  struct alloc_construct_mixin
  { };

  // construct (p, U&&): the move construction of one element from another
  template <class U, class... Args>
  struct is_move_of : std::false_type { };
  template <class U, class A>
  struct is_move_of<U, A>
    : std::integral_constant<bool, std::is_same<U, typename std::decay<A>::type>::value
                                   && std::is_rvalue_reference<A&&>::value
                                   && ! std::is_const<typename std::remove_reference<A>::type>::value>
  { };

  template <class T, class Cfg>
  struct alloc_construct_mixin<T, Cfg, 1>
  {
    // constrained on purpose: with an unconstrained construct() template the header's
    // is_explicitly_copy_insertable reports true for move-only elements, and relocation of a
    // move-only type with a throwing move constructor then fails to COMPILE (observation, DESIGN 6)
    template <class U, class... Args,
              class = decltype (::new (static_cast<void *> (0)) U (std::declval<Args> ()...))>
    void
    construct (U *p, Args&&... args)
    {
      // an allocator's construct may fail on its own account (quota, uses-allocator
      // construction that allocates) even when U's constructor is noexcept
      G ().construct_is_move = is_move_of<U, Args...>::value;
      note_construct_destroy_id (static_cast<const sim_alloc<T, Cfg> *> (this)->id, p, false);
      on_event (EV_ALLOC_CONSTRUCT);
      ::new (static_cast<void *> (p)) U (std::forward<Args> (args)...);
      ++CS ().constructs;
    }

    template <class U>
    void
    destroy (U *p)
    {
      note_construct_destroy_id (static_cast<const sim_alloc<T, Cfg> *> (this)->id, p, true);
      ++CS ().destroys;
      p->~U ();
    }
  };

  template <class T, class Cfg>
  struct alloc_construct_mixin<T, Cfg, 2>
  {
    void
    construct (T *p, const T& v)
    {
      G ().construct_is_move = false;
      note_construct_destroy_id (static_cast<const sim_alloc<T, Cfg> *> (this)->id, p, false);
      on_event (EV_ALLOC_CONSTRUCT);
      ::new (static_cast<void *> (p)) T (v);
      ++CS ().constructs;
    }

    void
    destroy (T *p)
    {
      note_construct_destroy_id (static_cast<const sim_alloc<T, Cfg> *> (this)->id, p, true);
      ++CS ().destroys;
      p->~T ();
    }
  };

  template <class T, class Cfg>
  class sim_alloc
    : public alloc_max_size_mixin<T, Cfg>,
      public alloc_construct_mixin<T, Cfg>
  {
  public:
    typedef T                        value_type;
    typedef typename Cfg::size_type  size_type;
    typedef std::ptrdiff_t           difference_type;
    typedef std::integral_constant<bool, Cfg::pocca>        propagate_on_container_copy_assignment;
    typedef std::integral_constant<bool, Cfg::pocma>        propagate_on_container_move_assignment;
    typedef std::integral_constant<bool, Cfg::pocs>         propagate_on_container_swap;
    typedef std::integral_constant<bool, Cfg::always_equal> is_always_equal;

    template <class U>
    struct rebind
    {
      typedef sim_alloc<U, Cfg> other;
    };

    int id;

    sim_alloc (void) noexcept : id (0) { }
    explicit sim_alloc (int i) noexcept : id (i) { }
    sim_alloc (const sim_alloc& o) noexcept : alloc_max_size_mixin<T, Cfg> (), alloc_construct_mixin<T, Cfg> (), id (o.id) { }
    sim_alloc& operator= (const sim_alloc& o) noexcept { id = o.id; return *this; }

    template <class U>
    sim_alloc (const sim_alloc<U, Cfg>& o) noexcept : id (o.id) { }

    T *
    allocate (size_type n)
    {
      state& g = G ();
      if (g.in_op)
      {
        alloc_call c;
        c.id = id;
        c.n  = static_cast<std::size_t> (n);
        g.allocs.push_back (c);
      }
      on_event (EV_ALLOC);
      return static_cast<T *> (ledger_allocate (static_cast<std::size_t> (n), sizeof (T), id,
                                                Cfg::always_equal));
    }

    void
    deallocate (T *p, size_type n) noexcept
    {
      ledger_deallocate (p, static_cast<std::size_t> (n), id, Cfg::always_equal);
    }

    // optional allocate-with-hint member (only with Cfg::has_hint): the header passes the end of
    // the current allocation as the hint
    template <class C = Cfg, typename std::enable_if<C::has_hint, int>::type = 0>
    T *
    allocate (size_type n, const void *hint)
    {
      ++hint_calls ();
      (void) hint;
      return allocate (n);
    }

    static std::uint64_t& hint_calls (void) { static std::uint64_t c = 0; return c; }

    sim_alloc
    select_on_container_copy_construction (void) const noexcept
    {
      return sim_alloc (Cfg::soccc_toggles ? soccc_toggle (id) : id);
    }
  };

  template <class T, class U, class Cfg>
  inline bool
  operator== (const sim_alloc<T, Cfg>& a, const sim_alloc<U, Cfg>& b) noexcept
  {
    return Cfg::always_equal || a.id == b.id;
  }

  template <class T, class U, class Cfg>
  inline bool
  operator!= (const sim_alloc<T, Cfg>& a, const sim_alloc<U, Cfg>& b) noexcept
  {
    return ! (a == b);
  }

  // ---------------------------------------------------------------- uniform view of an allocator
  struct std_alloc_cfg
  {
    static const bool pocca             = false;
    static const bool pocma             = true;
    static const bool pocs              = false;
    static const bool always_equal      = true;
    static const bool soccc_toggles     = false;
    static const bool construct_members = false;
    static const int  construct_mode    = 0;
    static const bool has_max_size      = false;
    static const bool has_hint          = false;
    static const unsigned long max_size_value = 0;
    static const bool is_std            = true;
    typedef std::size_t size_type;
  };

  template <class A>
  struct alloc_view;

  template <class T, class Cfg>
  struct alloc_view<sim_alloc<T, Cfg> >
  {
    typedef Cfg cfg;
    static const bool tracked = true;
    static int id_of (const sim_alloc<T, Cfg>& a) { return a.id; }
    static sim_alloc<T, Cfg> make (int id) { return sim_alloc<T, Cfg> (id); }
  };

  template <class A, class Enable = void>
  struct std_alloc_is_tracked : std::false_type { };

  template <class A>
  struct std_alloc_is_tracked<A, typename A::svsim_tracked> : std::true_type { };

  template <class T>
  struct alloc_view<std::allocator<T> >
  {
    typedef std_alloc_cfg cfg;
    static const bool tracked = std_alloc_is_tracked<std::allocator<T> >::value;
    static int id_of (const std::allocator<T>&) { return 0; }
    static std::allocator<T> make (int) { return std::allocator<T> (); }
  };

} // namespace sim

#endif

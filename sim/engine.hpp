// svsim engine, part 2: interpretation and execution of one op against the real containers.
// Every functor fills engine::info (interpreted operands, descriptor, expected result), creates
// its harness-side values, THEN arms the fault plan (op_guard) and makes the one call under test.
#ifndef SVSIM_ENGINE_HPP
#define SVSIM_ENGINE_HPP

#include "engine_base.hpp"

#include <functional>

namespace sim
{

  template <class U>
  class engine
  {
  public:
    typedef typename U::E    E;
    typedef typename U::A    A;
    typedef typename U::AV   AV;
    typedef typename U::ACfg ACfg;
    typedef std::integral_constant<bool, E::copyable> copyable_t;

    world<U> w;
    snap     pre[NSLOTS];
    snap     cur[NSLOTS];
    op_info  info;
    run_cfg  cfg;

    // ---------------------------------------------------------------- operand interpretation
    int
    val (std::uint32_t p, std::size_t i = 0) const
    {
      return static_cast<int> ((p % 1000u + i) % cfg.valmod);
    }

    template <class V>
    std::size_t
    count_operand (const V& v, std::uint32_t p, std::uint32_t sel, bool is_range_len) const
    {
      std::size_t c = (p & 0x700u) ? (p % 6u) : (p % 33u);
      if (U::big)
      {
        const std::size_t mx = v.max_size ();
        const std::size_t sz = v.size ();
        switch (sel % 4u)
        {
          case 0:
          {
            const long d = static_cast<long> (mx) - static_cast<long> (sz)
                           + static_cast<long> (p % 5u) - 2;
            c = d < 0 ? 0 : static_cast<std::size_t> (d);
            break;
          }
          case 1:
          {
            static const std::size_t special[] = { 254, 255, 256, 257, 258, 300 };
            c = special[p % 6u];
            if (mx > 2000)
              c = mx + (p % 4u) - 1;
            break;
          }
          default:
            break;
        }
        if (! is_range_len)
        {
          const std::size_t lim
            = static_cast<std::size_t> ((std::numeric_limits<typename V::size_type>::max) ());
          if (c > lim)
            c = lim;
        }
      }
      else
      {
        // one run in eight works with large containers (several hundred elements)
        if (cfg.size_cap > 64 && (p & 0x700u) == 0)
          c = p % 180u;
        if (v.size () + c > cfg.size_cap)
          c = p % 3u;
      }
      return c;
    }

    static std::size_t
    pos_operand (std::uint32_t p, std::size_t size)
    {
      return p % (size + 1);
    }

    int
    pick_id (std::uint32_t p) const
    {
      return 1 + static_cast<int> (p % 2u);
    }

    // ---------------------------------------------------------------- range plumbing
    // Three groups of range kinds, each compiled only where the element flavour / the operation
    // admits it: lvalue E sources (copyable flavours), int sources (operations that only
    // construct from *first), rvalue E sources (always).
    template <class It, class F>
    void
    call_range (It a, It b, const op& o, F& f)
    {
      op_guard g (o.f, cfg.count_mask1, cfg.count_mask2);
      f (a, b);
    }

    template <class F>
    bool
    wr_copy (int rk, src_range<E>& src, const op& o, F& f, std::true_type)
    {
      const std::size_t len = src.st.len;
      const E *base = src.elems.data ();
      switch (rk)
      {
        case RK_INPUT_E:
        {
          typedef range_iter<const E, std::input_iterator_tag> It;
          call_range (It (&src.st, base, 0), It (&src.st, base, len), o, f);
          return true;
        }
        case RK_FORWARD_E:
        {
          typedef range_iter<const E, std::forward_iterator_tag> It;
          call_range (It (&src.st, base, 0), It (&src.st, base, len), o, f);
          return true;
        }
        case RK_BIDIR_E:
        {
          typedef range_iter<const E, std::bidirectional_iterator_tag> It;
          call_range (It (&src.st, base, 0), It (&src.st, base, len), o, f);
          return true;
        }
        case RK_RANDOM_E:
        {
          typedef range_iter<const E, std::random_access_iterator_tag> It;
          call_range (It (&src.st, base, 0), It (&src.st, base, len), o, f);
          return true;
        }
        case RK_PTR_E:
          call_range (base, base + len, o, f);
          return true;
        case RK_SV_ITER:
        {
          gch::small_vector<E, 4, std::allocator<E> > tmp (base, base + len);
          call_range (tmp.cbegin (), tmp.cend (), o, f);
          return true;
        }
        default:
          return false;
      }
    }

    template <class F>
    bool
    wr_copy (int, src_range<E>&, const op&, F&, std::false_type)
    {
      return false;
    }

    template <class F>
    bool
    wr_int (int rk, src_range<E>& src, const op& o, F& f, std::true_type)
    {
      const std::size_t len = src.st.len;
      const int *base = src.ints.data ();
      switch (rk)
      {
        case RK_INPUT_INT:
        {
          typedef range_iter<const int, std::input_iterator_tag> It;
          call_range (It (&src.st, base, 0), It (&src.st, base, len), o, f);
          return true;
        }
        case RK_FORWARD_INT:
        {
          typedef range_iter<const int, std::forward_iterator_tag> It;
          call_range (It (&src.st, base, 0), It (&src.st, base, len), o, f);
          return true;
        }
        case RK_PTR_INT:
          call_range (base, base + len, o, f);
          return true;
        default:
          return false;
      }
    }

    template <class F>
    bool
    wr_int (int, src_range<E>&, const op&, F&, std::false_type)
    {
      return false;
    }

    template <class F>
    void
    wr_move (int rk, src_range<E>& src, const op& o, F& f)
    {
      const std::size_t len = src.st.len;
      E *base = src.elems.data ();
      if (rk == RK_MOVE_INPUT_E)
      {
        typedef range_iter<E, std::input_iterator_tag, E&> It;
        call_range (std::make_move_iterator (It (&src.st, base, 0)),
                    std::make_move_iterator (It (&src.st, base, len)), o, f);
      }
      else
        call_range (std::make_move_iterator (base), std::make_move_iterator (base + len), o, f);
    }

    // Build the source, run f over it with the fault plan armed, verify stream discipline.
    template <bool AllowInt, class F>
    void
    run_range_op (int rk, const std::vector<int>& vals, const op& o, F& f)
    {
      src_range<E> src (vals, rk_is_int (rk), rk_is_single_pass (rk), cfg.stream_faults);
      SVSIM_TRY
      {
        if (! wr_copy (rk, src, o, f, copyable_t ())
            && ! wr_int (rk, src, o, f, std::integral_constant<bool, AllowInt> ()))
          wr_move (rk, src, o, f);
      }
      SVSIM_CATCH_ALL
      {
        verify_range_use (src.st, false, op_name (o.kind));
        SVSIM_RETHROW;
      }
      verify_range_use (src.st, true, op_name (o.kind));
    }

    int
    range_kind_operand (std::uint32_t p) const
    {
      int rk = static_cast<int> (p % RK_NKINDS);
      if (! E::copyable)
        rk = rk_remap_for_move_only (rk);
      return rk;
    }

    void
    make_vals (std::uint32_t pbase, std::size_t len, std::vector<int>& out) const
    {
      out.clear ();
      for (std::size_t i = 0; i < len; ++i)
        out.push_back (val (pbase, i));
    }

    void
    set_vals (const std::vector<int>& v)
    {
      info.vals.clear ();
      for (std::size_t i = 0; i < v.size (); ++i)
        info.vals.push_back (MV (v[i], false));
    }

    template <class F>
    void
    with_ilist (const std::vector<int>& v, const op& o, F& f)
    {
      switch (v.size ())
      {
        case 0:
        {
          std::initializer_list<E> il = { };
          op_guard g (o.f, cfg.count_mask1, cfg.count_mask2);
          f (il);
          break;
        }
        case 1:
        {
          std::initializer_list<E> il = { E (v[0]) };
          op_guard g (o.f, cfg.count_mask1, cfg.count_mask2);
          f (il);
          break;
        }
        case 2:
        {
          std::initializer_list<E> il = { E (v[0]), E (v[1]) };
          op_guard g (o.f, cfg.count_mask1, cfg.count_mask2);
          f (il);
          break;
        }
        case 3:
        {
          std::initializer_list<E> il = { E (v[0]), E (v[1]), E (v[2]) };
          op_guard g (o.f, cfg.count_mask1, cfg.count_mask2);
          f (il);
          break;
        }
        default:
        {
          std::initializer_list<E> il = { E (v[0]), E (v[1]), E (v[2]), E (v[3]), E (v[4]) };
          op_guard g (o.f, cfg.count_mask1, cfg.count_mask2);
          f (il);
          break;
        }
      }
    }

    static std::size_t
    ilist_len (std::uint32_t p)
    {
      const std::size_t l = p % 5u;
      return l == 4 ? 5 : l;
    }

    template <class V>
    static typename V::const_iterator
    cpos (const V& v, std::size_t pos)
    {
      return v.cbegin () + static_cast<typename V::difference_type> (pos);
    }

#include "engine_ops_unary.inc"
#include "engine_ops_binary.inc"

    // ---------------------------------------------------------------- dispatch
    template <class F>
    void
    unary (const op& o)
    {
      F f (*this, o);
      w.visit (o.a, f);
    }

    template <class F>
    void
    unary_if (const op& o, std::true_type)
    {
      unary<F> (o);
    }

    template <class F>
    void
    unary_if (const op&, std::false_type)
    {
      info.outcome = OUT_SKIPPED;
    }

    template <class F>
    void
    binary (const op& o, unsigned t, unsigned s)
    {
      F f (*this, o);
      w.visit2 (t, s, f);
    }

    template <class F>
    void
    binary_if (const op& o, unsigned t, unsigned s, std::true_type)
    {
      binary<F> (o, t, s);
    }

    template <class F>
    void
    binary_if (const op&, unsigned, unsigned, std::false_type)
    {
      info.outcome = OUT_SKIPPED;
    }

    static int
    remap_kind (int k)
    {
      if (E::copyable)
        return k;
      switch (k)
      {
        case K_CTOR_COUNT_VAL:      return K_CTOR_COUNT_ALLOC;
        case K_CTOR_ILIST:          return K_CTOR_RANGE;
        case K_CTOR_COPY:           return K_CTOR_MOVE;
        case K_CTOR_COPY_ALLOC:     return K_CTOR_MOVE_ALLOC;
        case K_ASSIGN_COPY:         return K_ASSIGN_MOVE;
        case K_ASSIGN_COPY_FN:      return K_ASSIGN_MOVE_FN;
        case K_ASSIGN_N:            return K_ASSIGN_RANGE;
        case K_ASSIGN_ILIST:        return K_ASSIGN_RANGE;
        case K_OPASSIGN_ILIST:      return K_ASSIGN_RANGE;
        case K_INSERT_COPY:         return K_INSERT_MOVE;
        case K_INSERT_N:            return K_EMPLACE;
        case K_INSERT_ILIST:        return K_INSERT_RANGE;
        case K_PUSH_BACK_COPY:      return K_PUSH_BACK_MOVE;
        case K_INSERT_COPY_ALIAS:   return K_INSERT_MOVE;
        case K_INSERT_N_ALIAS:      return K_EMPLACE;
        case K_EMPLACE_ALIAS:       return K_EMPLACE;
        case K_PUSH_BACK_ALIAS:     return K_PUSH_BACK_MOVE;
        case K_EMPLACE_BACK_ALIAS:  return K_EMPLACE_BACK;
        case K_RESIZE_VAL_ALIAS:    return K_RESIZE;
        case K_RESIZE_VAL:          return K_RESIZE;
        case K_APPEND_ILIST:        return K_APPEND_RANGE;
        case K_APPEND_COPY_SV:      return K_APPEND_MOVE_SV;
        case K_EMPLACE_CREF_ALIAS:  return K_EMPLACE;
        case K_EMPLACE_BACK_CREF_ALIAS: return K_EMPLACE_BACK;
        default:                    return k;
      }
    }

    // Execute the real call for o. Exceptions propagate to the caller (step ()).
    void
    dispatch (const op& o, int kind, unsigned t, unsigned s)
    {
      const copyable_t C = copyable_t ();
      switch (kind)
      {
        case K_CTOR_DEFAULT:       unary<x_ctor_default> (o); break;
        case K_CTOR_ALLOC:         unary<x_ctor_alloc> (o); break;
        case K_CTOR_COUNT:         unary<x_ctor_count> (o); break;
        case K_CTOR_COUNT_ALLOC:   unary<x_ctor_count_alloc> (o); break;
        case K_CTOR_COUNT_VAL:     unary_if<x_ctor_count_val> (o, C); break;
        case K_CTOR_GEN:           unary<x_ctor_gen> (o); break;
        case K_CTOR_RANGE:         unary<x_ctor_range> (o); break;
        case K_CTOR_ILIST:         unary_if<x_ctor_ilist> (o, C); break;
        case K_CTOR_COPY:          binary_if<x_ctor_copy> (o, t, s, C); break;
        case K_CTOR_COPY_ALLOC:    binary_if<x_ctor_copy_alloc> (o, t, s, C); break;
        case K_CTOR_MOVE:          binary<x_ctor_move> (o, t, s); break;
        case K_CTOR_MOVE_ALLOC:    binary<x_ctor_move_alloc> (o, t, s); break;
        case K_ASSIGN_COPY:        binary_if<x_assign_copy> (o, t, s, C); break;
        case K_ASSIGN_COPY_FN:     binary_if<x_assign_copy_fn> (o, t, s, C); break;
        case K_ASSIGN_MOVE:        binary<x_assign_move> (o, t, s); break;
        case K_ASSIGN_MOVE_FN:     binary<x_assign_move_fn> (o, t, s); break;
        case K_ASSIGN_N:           unary_if<x_assign_n> (o, C); break;
        case K_ASSIGN_RANGE:       unary<x_assign_range> (o); break;
        case K_ASSIGN_ILIST:       unary_if<x_assign_ilist> (o, C); break;
        case K_OPASSIGN_ILIST:     unary_if<x_opassign_ilist> (o, C); break;
        case K_SWAP:               x_swap_run (o, false); break;
        case K_SWAP_NM:            x_swap_run (o, true); break;
        case K_INSERT_COPY:        unary_if<x_insert_copy> (o, C); break;
        case K_INSERT_MOVE:        unary<x_insert_move> (o); break;
        case K_INSERT_N:           unary_if<x_insert_n> (o, C); break;
        case K_INSERT_RANGE:       unary<x_insert_range> (o); break;
        case K_INSERT_ILIST:       unary_if<x_insert_ilist> (o, C); break;
        case K_EMPLACE:            unary<x_emplace> (o); break;
        case K_PUSH_BACK_COPY:     unary_if<x_push_back_copy> (o, C); break;
        case K_PUSH_BACK_MOVE:     unary<x_push_back_move> (o); break;
        case K_EMPLACE_BACK:       unary<x_emplace_back> (o); break;
        case K_INSERT_COPY_ALIAS:  unary_if<x_insert_copy_alias> (o, C); break;
        case K_INSERT_N_ALIAS:     unary_if<x_insert_n_alias> (o, C); break;
        case K_EMPLACE_ALIAS:      unary_if<x_emplace_alias> (o, C); break;
        case K_PUSH_BACK_ALIAS:    unary_if<x_push_back_alias> (o, C); break;
        case K_EMPLACE_BACK_ALIAS: unary_if<x_emplace_back_alias> (o, C); break;
        case K_RESIZE_VAL_ALIAS:   unary_if<x_resize_val_alias> (o, C); break;
        case K_ERASE_POS:          unary<x_erase_pos> (o); break;
        case K_ERASE_RANGE:        unary<x_erase_range> (o); break;
        case K_POP_BACK:           unary<x_pop_back> (o); break;
        case K_CLEAR:              unary<x_clear> (o); break;
        case K_NM_ERASE:           unary<x_nm_erase> (o); break;
        case K_NM_ERASE_IF:        unary<x_nm_erase_if> (o); break;
        case K_RESERVE:            unary<x_reserve> (o); break;
        case K_SHRINK:             unary<x_shrink> (o); break;
        case K_RESIZE:             unary<x_resize> (o); break;
        case K_RESIZE_VAL:         unary_if<x_resize_val> (o, C); break;
        case K_APPEND_RANGE:       unary<x_append_range> (o); break;
        case K_APPEND_ILIST:       unary_if<x_append_ilist> (o, C); break;
        case K_APPEND_COPY_SV:     binary_if<x_append_copy_sv> (o, t, s, C); break;
        case K_APPEND_MOVE_SV:     binary<x_append_move_sv> (o, t, s); break;
        case K_AT:                 unary<x_at> (o); break;
        case K_COMPARE:            binary<x_compare> (o, t, s); break;
        case K_NM_ACCESS:          unary<x_nm_access> (o); break;
        case K_EMPLACE_CREF_ALIAS: unary_if<x_emplace_cref_alias> (o, C); break;
        case K_EMPLACE_BACK_CREF_ALIAS: unary_if<x_emplace_back_cref_alias> (o, C); break;
        case K_EMPLACE_MEMBER_ALIAS: unary<x_emplace_member_alias> (o); break;
        default:                   info.outcome = OUT_SKIPPED; break;
      }
    }

#include "engine_post.inc"
  };

} // namespace sim

#endif

// svsim runner: seeded generation of histories (storm), state-targeted fault sweeps, long
// append runs, replay; result reporting on stdout (parsed by /verif/check).
#ifndef SVSIM_RUNNER_HPP
#define SVSIM_RUNNER_HPP

#include "engine.hpp"

#include <set>

namespace sim
{

  struct job
  {
    std::string   universe;     // name filter ("all" or exact)
    std::string   mode;         // storm | sweep | long | replay
    int           prop;         // focus property (1..18), 0: none
    std::uint64_t seed_base;
    std::uint64_t run_lo, run_hi;
    bool          faults;
    unsigned      nops;
    unsigned      samples;
    bool          pairs;        // sweep: also enumerate (k, j) pairs
    std::uint32_t sweep_mask;   // sweep: eligible kinds for the first throw
    std::vector<std::pair<std::string, int> > known;
    std::vector<op> replay_ops;
    std::uint32_t replay_idbits;
    unsigned      replay_valmod;
    bool          replay_stream_faults;
    unsigned long long long_n;
    bool          digests;      // print one DIGEST line per run (C17)
    bool          trace_all;
    bool          print_hist;
    bool          twin;         // twin replay (C13): seeds independent of the universe, sources of
                                // moves are cleared by the history, no faults

    job (void)
      : universe ("all"), mode ("storm"), prop (0), seed_base (1), run_lo (0), run_hi (1),
        faults (false), nops (24), samples (3), pairs (false), sweep_mask (MASK_ALL),
        replay_idbits (0), replay_valmod (120), replay_stream_faults (true), long_n (100000),
        digests (false), trace_all (false), print_hist (false), twin (false)
    { }
  };

  struct totals
  {
    std::uint64_t runs, evaluations, ops, faults_fired, reallocs, steals, nontrivial;
    std::uint64_t violations, foreign;
    bool stop;                 // a violation was reported: the process no longer trusts its heap
    std::uint64_t next_index;  // where the driver should restart
    std::set<std::uint64_t> sigs;
    std::vector<std::string> samples;
    std::vector<unsigned> known_hits;
    totals (void)
      : runs (0), evaluations (0), ops (0), faults_fired (0), reallocs (0), steals (0),
        nontrivial (0), violations (0), foreign (0), stop (false), next_index (0)
    { }
  };

  // ------------------------------------------------------------------ op generation
  inline const unsigned *
  base_weights (void)
  {
    static const unsigned wts[K_NKINDS] = {
      /* ctor_default */ 1, /* ctor_alloc */ 1, /* ctor_count */ 1, /* ctor_count_alloc */ 1,
      /* ctor_count_val */ 1, /* ctor_gen */ 1, /* ctor_range */ 3, /* ctor_ilist */ 1,
      /* ctor_copy */ 3, /* ctor_copy_alloc */ 2, /* ctor_move */ 3, /* ctor_move_alloc */ 3,
      /* assign_copy */ 3, /* assign_copy_fn */ 2, /* assign_move */ 3, /* assign_move_fn */ 2,
      /* assign_n */ 2, /* assign_range */ 3, /* assign_ilist */ 1, /* opassign_ilist */ 1,
      /* swap */ 3, /* swap_nm */ 1,
      /* insert_copy */ 3, /* insert_move */ 2, /* insert_n */ 3, /* insert_range */ 4,
      /* insert_ilist */ 1, /* emplace */ 2, /* push_back_copy */ 4, /* push_back_move */ 3,
      /* emplace_back */ 3,
      /* insert_copy_alias */ 1, /* insert_n_alias */ 1, /* emplace_alias */ 1,
      /* push_back_alias */ 1, /* emplace_back_alias */ 1, /* resize_val_alias */ 1,
      /* erase_pos */ 2, /* erase_range */ 2, /* pop_back */ 2, /* clear */ 1, /* nm_erase */ 1,
      /* nm_erase_if */ 1,
      /* reserve */ 2, /* shrink */ 2, /* resize */ 2, /* resize_val */ 2,
      /* append_range */ 3, /* append_ilist */ 1, /* append_copy_sv */ 2, /* append_move_sv */ 2,
      /* at */ 1, /* compare */ 1, /* nm_access */ 1, /* emplace_cref_alias */ 1,
      /* emplace_back_cref_alias */ 1, /* emplace_member_alias */ 1
    };
    return wts;
  }

  // extra weight for the kinds a property is about
  inline unsigned
  focus_boost (int prop, int k)
  {
    switch (prop)
    {
      case P07: case P09:
        if (k == K_CTOR_COPY || k == K_CTOR_COPY_ALLOC || k == K_CTOR_MOVE
            || k == K_CTOR_MOVE_ALLOC || (K_ASSIGN_COPY <= k && k <= K_ASSIGN_MOVE_FN)
            || k == K_SWAP || k == K_SWAP_NM)
          return 4;
        if (k == K_RESERVE || k == K_APPEND_RANGE)
          return 2;
        return 1;
      case P11:
        return ((K_INSERT_COPY_ALIAS <= k && k <= K_RESIZE_VAL_ALIAS) || k == K_EMPLACE_CREF_ALIAS
                || k == K_EMPLACE_BACK_CREF_ALIAS || k == K_EMPLACE_MEMBER_ALIAS) ? 8 : 1;
      case P15:
        return (k == K_CTOR_RANGE || k == K_ASSIGN_RANGE || k == K_INSERT_RANGE
                || k == K_APPEND_RANGE || k == K_CTOR_GEN) ? 5 : 1;
      case P16:
        return (k == K_COMPARE || k == K_NM_ERASE || k == K_NM_ERASE_IF || k == K_NM_ACCESS
                || k == K_SWAP_NM) ? 8 : 1;
      case P14: case P10:
        return (k == K_RESERVE || (K_INSERT_COPY <= k && k <= K_EMPLACE_BACK)
                || k == K_RESIZE || k == K_RESIZE_VAL || (K_APPEND_RANGE <= k && k <= K_APPEND_MOVE_SV)
                || k == K_ASSIGN_N || k == K_ASSIGN_RANGE) ? 3 : 1;
      default:
        return 1;
    }
  }

  inline op
  gen_op (rng& r, int prop, bool faults, bool stream_faults)
  {
    const unsigned *wts = base_weights ();
    unsigned total = 0;
    for (int k = 0; k < K_NKINDS; ++k)
      total += wts[k] * focus_boost (prop, k);
    unsigned pick = r.below (total);
    int kind = 0;
    for (int k = 0; k < K_NKINDS; ++k)
    {
      const unsigned wk = wts[k] * focus_boost (prop, k);
      if (pick < wk)
      {
        kind = k;
        break;
      }
      pick -= wk;
    }
    op o;
    o.kind = kind;
    o.a = r.below (NSLOTS);
    o.b = r.below (NSLOTS);
    for (int i = 0; i < 5; ++i)
      o.p[i] = r.u32 ();
    const std::uint32_t fsel  = r.below (3);
    const std::uint32_t fcls  = r.below (8);
    const std::uint32_t fk    = r.below (6);
    const std::uint32_t fk2   = r.below (24);
    const std::uint32_t fwide = r.below (4);
    const std::uint32_t f2    = r.below (6);
    const std::uint32_t fj    = r.below (4);
    if (faults && fsel == 0)
    {
      switch (fcls)
      {
        case 0:  o.f.mask = (1u << EV_ALLOC) | (1u << EV_ALLOC_CONSTRUCT); break;
        case 1:  o.f.mask = MASK_CTORS; break;
        case 2:  o.f.mask = (1u << EV_ASSIGN_COPY) | (1u << EV_ASSIGN_MOVE) | (1u << EV_SWAP); break;
        case 3:  o.f.mask = (1u << EV_ITER_DEREF) | (1u << EV_ITER_INC) | (1u << EV_GEN_CALL)
                            | (1u << EV_COMPARE) | (1u << EV_PRED); break;
        default: o.f.mask = MASK_ALL; break;
      }
      if (! stream_faults)
        o.f.mask &= ~((1u << EV_ITER_DEREF) | (1u << EV_ITER_INC) | (1u << EV_GEN_CALL));
      // C17 compares traces across language standards: the NUMBER of element comparisons behind
      // one container comparison is not standard-independent (C++20 goes through operator<=>, and
      // the harness calls <=> in addition), so a "k-th comparison throws" plan is not either
      if (prop == 17)
        o.f.mask &= ~(1u << EV_COMPARE);
      o.f.k = static_cast<std::int32_t> (fwide == 0 ? fk2 : fk);
      if (f2 == 0)
      {
        o.f.mask2 = MASK_ALL;
        o.f.j     = static_cast<std::int32_t> (fj);
      }
      if (o.f.mask == 0)
        o.f = fault_plan ();
    }
    return o;
  }

  // small explicit ops used by the sweep's state-targeted prefixes
  inline op
  mk_op (int kind, unsigned a, unsigned b, std::uint32_t p0, std::uint32_t p1, std::uint32_t p2,
         std::uint32_t p3, std::uint32_t p4)
  {
    op o;
    o.kind = kind; o.a = a; o.b = b;
    o.p[0] = p0; o.p[1] = p1; o.p[2] = p2; o.p[3] = p3; o.p[4] = p4;
    return o;
  }

  static const std::uint32_t P2_PTR_INT_PLAIN = RK_PTR_INT + 2 * RK_NKINDS; // range kind int*, plain count

  // Put slot x (inline capacity N) into a chosen pre-state class.
  inline void
  emit_prefix (rng& r, unsigned x, unsigned N, std::vector<op>& out)
  {
    unsigned cls = r.below (5);
    const unsigned extra = r.below (6);
    const unsigned room  = 1 + r.below (4);
    const unsigned base  = r.below (900);
    if (N == 0 && cls < 2)
      cls = 2 + r.below (3);
    out.push_back (mk_op (K_CLEAR, x, 0, 0, 0, 0, 0, 0));
    out.push_back (mk_op (K_SHRINK, x, 0, 0, 0, 0, 0, 0));
    switch (cls)
    {
      case 0: // inline with room
        out.push_back (mk_op (K_APPEND_RANGE, x, 0, 0, extra % N, P2_PTR_INT_PLAIN, base, 0));
        break;
      case 1: // inline, exactly full
        out.push_back (mk_op (K_APPEND_RANGE, x, 0, 0, N, P2_PTR_INT_PLAIN, base, 0));
        break;
      case 2: // heap, size == capacity
        out.push_back (mk_op (K_APPEND_RANGE, x, 0, 0, N + 1 + extra, P2_PTR_INT_PLAIN, base, 0));
        out.push_back (mk_op (K_SHRINK, x, 0, 0, 0, 0, 0, 0));
        break;
      case 3: // heap with `room` free slots
        out.push_back (mk_op (K_APPEND_RANGE, x, 0, 0, N + 1 + extra, P2_PTR_INT_PLAIN, base, 0));
        out.push_back (mk_op (K_SHRINK, x, 0, 0, 0, 0, 0, 0));
        out.push_back (mk_op (K_RESERVE, x, 0, 1, N + 1 + extra + room, 2, 0, 0));
        break;
      default: // heap, oversized: contents would fit inline
      {
        const unsigned keep = N == 0 ? 0 : r.below (N + 1);
        const unsigned sz   = N + 2 + extra;
        out.push_back (mk_op (K_APPEND_RANGE, x, 0, 0, sz, P2_PTR_INT_PLAIN, base, 0));
        out.push_back (mk_op (K_ERASE_RANGE, x, 0, keep, sz - keep, 0, 0, 0));
        break;
      }
    }
  }

  inline bool
  kind_is_c05 (int k)
  {
    switch (k)
    {
      case K_PUSH_BACK_COPY: case K_PUSH_BACK_MOVE: case K_EMPLACE_BACK: case K_INSERT_COPY:
      case K_INSERT_MOVE: case K_EMPLACE: case K_INSERT_N: case K_INSERT_RANGE: case K_RESERVE:
      case K_RESIZE: case K_RESIZE_VAL: case K_SHRINK: case K_APPEND_RANGE: case K_APPEND_ILIST:
      case K_APPEND_COPY_SV: case K_APPEND_MOVE_SV: case K_PUSH_BACK_ALIAS:
      case K_EMPLACE_BACK_ALIAS: case K_RESIZE_VAL_ALIAS: case K_EMPLACE_CREF_ALIAS:
      case K_EMPLACE_BACK_CREF_ALIAS:
        return true;
      default:
        return false;
    }
  }

  // ------------------------------------------------------------------ the runner
  template <class U>
  struct runner
  {
    typedef engine<U> engine_t;

    const job& jb;
    totals&    tt;
    const char *uname;
    unsigned    uid;

    runner (const job& j, totals& t, const char *name, unsigned id)
      : jb (j), tt (t), uname (name), uid (id)
    { }

    void
    configure (engine_t& e, unsigned valmod, bool stream_faults)
    {
      e.cfg.valmod        = valmod;
      e.cfg.stream_faults = stream_faults;
      e.cfg.count_mask1   = jb.mode == "sweep" ? jb.sweep_mask : MASK_ALL;
      e.cfg.count_mask2   = MASK_ALL;
      e.cfg.clear_moved_from = jb.twin;
      e.known.clear ();
      e.known_hits.assign (jb.known.size (), 0);
      for (std::size_t i = 0; i < jb.known.size (); ++i)
      {
        typename engine_t::known_sig k;
        k.oracle = jb.known[i].first;
        k.kind   = jb.known[i].second;
        e.known.push_back (k);
      }
    }

    void
    report_violation (engine_t& e, std::uint64_t seed, const std::vector<op>& hist,
                      std::uint32_t idbits, int at_op)
    {
      state& g = G ();
      const bool mine = jb.prop == 0 || (g.v_props & pbit (jb.prop)) != 0;
      if (mine)
        ++tt.violations;
      else
        ++tt.foreign;
      const char *kname = (0 <= at_op && static_cast<std::size_t> (at_op) < hist.size ())
                            ? op_name (engine_t::remap_kind (hist[static_cast<std::size_t> (at_op)].kind))
                            : "teardown";
      std::printf ("VIOL %s %s %llu %s props=%u mine=%d at=%d kind=%s :: %s\n", uname,
                   jb.mode.c_str (), static_cast<unsigned long long> (seed), g.v_oracle.c_str (),
                   g.v_props, mine ? 1 : 0, at_op, kname, g.v_msg.c_str ());
      for (std::size_t i = 0; i < g.also.size (); ++i)
      {
        const bool mine2 = jb.prop != 0 && (g.also[i].props & pbit (jb.prop)) != 0 && ! mine;
        if (mine2)
          ++tt.violations;
        std::printf ("ALSO %s props=%u :: %s\n", g.also[i].oracle.c_str (), g.also[i].props,
                     g.also[i].msg.c_str ());
      }
      std::printf ("H world %u %u %d\n", idbits, e.cfg.valmod, e.cfg.stream_faults ? 1 : 0);
      for (std::size_t i = 0; i < hist.size (); ++i)
        std::printf ("H %s\n", op_to_text (hist[i]).c_str ());
      std::printf ("ENDVIOL\n");
      std::fflush (stdout);
      tt.stop = true;
    }

    void
    finish_run (engine_t& e, bool count_sig)
    {
      ++tt.evaluations;
      tt.ops          += e.rs.ops_done;
      tt.faults_fired += e.rs.faults_fired;
      tt.reallocs     += e.rs.reallocs;
      tt.steals       += e.rs.steals;
      for (std::size_t i = 0; i < e.known_hits.size (); ++i)
      {
        if (tt.known_hits.size () <= i)
          tt.known_hits.resize (i + 1, 0);
        tt.known_hits[i] += e.known_hits[i];
        e.known_hits[i] = 0;
      }
      if (count_sig && (jb.prop == 0 || (e.rs.exercised & pbit (jb.prop))))
      {
        ++tt.nontrivial;
        tt.sigs.insert (e.rs.sig.h ^ (static_cast<std::uint64_t> (uid) << 56));
        if (tt.samples.size () < jb.samples && ! e.trace.empty ())
        {
          std::string s = std::string (uname) + ":";
          for (std::size_t i = 0; i < e.trace.size (); ++i)
            s += " | " + e.trace[i];
          tt.samples.push_back (s);
        }
      }
    }

    // Execute an explicit history. Returns the index of the violating op or -1.
    int
    execute (engine_t& e, const std::vector<op>& hist, std::uint32_t idbits)
    {
      state& g = G ();
      g.violated = false;
      g.v_props  = 0;
      g.also.clear ();
      R ().reset ();
      L ().reset ();
      CS () = construct_stats ();
      e.build_world (idbits);
      int bad = -1;
      for (std::size_t i = 0; i < hist.size (); ++i)
        if (! e.step (hist[i], static_cast<int> (i)))
        {
          bad = static_cast<int> (i);
          break;
        }
      if (bad < 0)
      {
        e.teardown ();
        if (g.violated)
          bad = static_cast<int> (hist.size ());
      }
      if (bad >= 0)
        e.abandon ();
      return bad;
    }

    void
    begin_line (std::uint64_t seed, std::uint64_t index = 0)
    {
      std::printf ("BEGIN %s %s %llu %llu\n", uname, jb.mode.c_str (),
                   static_cast<unsigned long long> (seed),
                   static_cast<unsigned long long> (index));
      std::fflush (stdout);
    }

    // with --print-hist every history is written out before it is executed, so that a run
    // that kills the process still leaves a replayable record
    void
    print_hist (const engine_t& e, const std::vector<op>& hist, std::uint32_t idbits)
    {
      if (! jb.print_hist)
        return;
      std::printf ("PH world %u %u %d\n", idbits, e.cfg.valmod, e.cfg.stream_faults ? 1 : 0);
      for (std::size_t i = 0; i < hist.size (); ++i)
        std::printf ("PH %s\n", op_to_text (hist[i]).c_str ());
      std::printf ("PHEND\n");
      std::fflush (stdout);
    }

    // ---------------------------------------------------------------- storm
    void
    storm (void)
    {
      engine_t e;
      for (std::uint64_t i = jb.run_lo; i < jb.run_hi && ! tt.stop; ++i)
      {
        tt.next_index = i + 1;
        const std::uint64_t seed = mix3 (jb.seed_base, jb.twin ? 777u : uid, i);
        rng r (seed);
        const std::uint32_t idbits  = r.below (16);
        const std::uint32_t vsel    = r.below (4);
        const std::uint32_t nsel    = r.below (jb.nops > 5 ? jb.nops - 4 : 1);
        const std::uint32_t sfsel   = r.below (4);
        const unsigned valmod = (jb.prop == P16 || vsel == 0) ? 4 : 120;
        configure (e, valmod, sfsel != 0);
        e.cfg.size_cap = ((seed >> 20) % 8u == 0 && ! jb.twin) ? 600u : 64u;
        e.keep_trace = jb.trace_all || tt.samples.size () < jb.samples;
        std::vector<op> hist;
        const unsigned n = 5 + nsel;
        for (unsigned k = 0; k < n; ++k)
          hist.push_back (gen_op (r, jb.prop, jb.faults, e.cfg.stream_faults));
        begin_line (seed, i);
        ++tt.runs;
        print_hist (e, hist, idbits);
        const int bad = execute (e, hist, idbits);
        if (bad >= 0)
          report_violation (e, seed, hist, idbits, bad);
        finish_run (e, bad < 0);
        if (jb.digests)
          std::printf ("DIGEST %s %llu %016llx %llu\n", uname,
                       static_cast<unsigned long long> (seed),
                       static_cast<unsigned long long> (e.digest.h),
                       static_cast<unsigned long long> (i));
        if (jb.trace_all)
          for (std::size_t k = 0; k < e.trace.size (); ++k)
            std::printf ("T %s\n", e.trace[k].c_str ());
      }
    }

    // ---------------------------------------------------------------- sweep
    // seed -> (state-targeted prefix, final op); the final op is run once fault-free to count
    // its E eligible events, then once per k in [0, E) and, when asked, per (k, j).
    void
    sweep (void)
    {
      engine_t e;
      for (std::uint64_t i = jb.run_lo; i < jb.run_hi && ! tt.stop; ++i)
      {
        tt.next_index = i + 1;
        const std::uint64_t seed = mix3 (jb.seed_base, uid + 1000u, i);
        rng r (seed);
        const std::uint32_t idbits = r.below (16);
        const std::uint32_t sfsel  = r.below (4);
        configure (e, 120, sfsel != 0);
        e.keep_trace = tt.samples.size () < jb.samples;
        const unsigned t = r.below (NSLOTS);
        const unsigned sraw = r.below (NSLOTS - 1);
        const unsigned s = sraw >= t ? sraw + 1 : sraw;
        std::vector<op> prefix;
        emit_prefix (r, t, U::inline_cap (t), prefix);
        emit_prefix (r, s, U::inline_cap (s), prefix);
        // final op: drawn until it is in the property's list
        op fin;
        for (unsigned tries = 0; tries < 200; ++tries)
        {
          fin = gen_op (r, jb.prop, false, e.cfg.stream_faults);
          fin.a = t;
          fin.b = s;
          if (fin.kind == K_AT || fin.kind == K_COMPARE || fin.kind == K_NM_ACCESS)
            continue;
          if (jb.prop != P05 || kind_is_c05 (engine_t::remap_kind (fin.kind)))
            break;
        }
        if (jb.prop == P05)
        {
          // the strong forms insert at end(): half of the time force pos == size
          const std::uint32_t force = r.below (2);
          if (force)
          {
            fin.p[0] = 0xFFFFFFFFu; // interpreted below
            if (fin.kind == K_INSERT_N || fin.kind == K_INSERT_RANGE || fin.kind == K_INSERT_N_ALIAS)
              fin.p[1] = 1;
          }
        }
        std::vector<op> epilogue;
        {
          const unsigned ne = 6;
          for (unsigned k = 0; k < ne; ++k)
          {
            op o = gen_op (r, 0, false, e.cfg.stream_faults);
            o.a = (k & 1u) ? s : t;
            o.b = (k & 1u) ? t : s;
            epilogue.push_back (o);
          }
          epilogue.push_back (mk_op (K_AT, t, s, 0, 0, 0, 0, 0));
          epilogue.push_back (mk_op (K_CLEAR, s, t, 0, 0, 0, 0, 0));
        }
        begin_line (seed, i);
        ++tt.runs;

        // dry run: count eligible events
        std::vector<op> hist (prefix);
        hist.push_back (fin);
        if (fin.p[0] == 0xFFFFFFFFu)
        {
          // make "pos" equal to the size the prefix leaves: run the prefix to learn it
          std::vector<op> pre_only (prefix);
          const int b0 = execute (e, pre_only, idbits);
          if (b0 >= 0)
          {
            report_violation (e, seed, pre_only, idbits, b0);
            finish_run (e, false);
            continue;
          }
          // size of t after the prefix is what the engine last observed
          fin.p[0] = static_cast<std::uint32_t> (e.cur[t].size);
          hist.back () = fin;
        }
        print_hist (e, hist, idbits);
        int bad = execute (e, hist, idbits);
        const std::uint64_t E1 = G ().eligible1;
        if (bad >= 0)
        {
          report_violation (e, seed, hist, idbits, bad);
          finish_run (e, false);
          continue;
        }
        finish_run (e, false);
        const std::uint64_t kmax = E1 < 48 ? E1 : 48;
        for (std::uint64_t k = 0; k < kmax && ! tt.stop; ++k)
        {
          std::vector<op> h (prefix);
          op f = fin;
          f.f.mask = jb.sweep_mask;
          f.f.k    = static_cast<std::int32_t> (k);
          h.push_back (f);
          h.insert (h.end (), epilogue.begin (), epilogue.end ());
          e.keep_trace = tt.samples.size () < jb.samples;
          print_hist (e, h, idbits);
          bad = execute (e, h, idbits);
          const std::uint64_t E2 = G ().eligible2_last;
          if (bad >= 0)
            report_violation (e, seed, h, idbits, bad);
          finish_run (e, bad < 0);
          if (bad >= 0 || ! jb.pairs)
            continue;
          const std::uint64_t jmax = E2 < 12 ? E2 : 12;
          for (std::uint64_t j = 0; j < jmax && ! tt.stop; ++j)
          {
            std::vector<op> h2 (prefix);
            op f2 = f;
            f2.f.mask2 = MASK_ALL;
            f2.f.j     = static_cast<std::int32_t> (j);
            h2.push_back (f2);
            h2.insert (h2.end (), epilogue.begin (), epilogue.end ());
            print_hist (e, h2, idbits);
            bad = execute (e, h2, idbits);
            if (bad >= 0)
              report_violation (e, seed, h2, idbits, bad);
            finish_run (e, bad < 0);
          }
        }
      }
    }

    // ---------------------------------------------------------------- long append runs (C14)
    void
    long_run (void)
    {
      engine_t e;
      for (std::uint64_t i = jb.run_lo; i < jb.run_hi && ! tt.stop; ++i)
      {
        tt.next_index = i + 1;
        const std::uint64_t seed = mix3 (jb.seed_base, uid + 2000u, i);
        rng r (seed);
        configure (e, 120, false);
        e.keep_trace = false;
        begin_line (seed, i);
        ++tt.runs;
        state& g = G ();
        g.violated = false;
        R ().reset ();
        L ().reset ();
        CS () = construct_stats ();
        R ().counters_only = true;
        e.build_world (r.below (16));
        const unsigned t    = r.below (NSLOTS);
        const unsigned flav = r.below (4);
        long_f lf (*this, e, flav, jb.long_n, seed);
        e.w.visit (t, lf);
        e.teardown ();
        R ().counters_only = false;
        ++tt.evaluations;
        tt.ops += jb.long_n;
        ++tt.nontrivial;
        tt.sigs.insert (mix3 (seed, flav, t));
        if (g.violated)
        {
          std::vector<op> none;
          report_violation (e, seed, none, 0, 0);
          e.abandon ();
        }
      }
    }

    struct long_f
    {
      runner&            rn;
      engine_t&          e;
      unsigned           flav;
      unsigned long long n;
      std::uint64_t      seed;
      long_f (runner& r_, engine_t& e_, unsigned f, unsigned long long n_, std::uint64_t s)
        : rn (r_), e (e_), flav (f), n (n_), seed (s)
      { }

      template <class V>
      void
      operator() (V& v, unsigned t)
      {
        typedef typename U::E E;
        state& g = G ();
        g.cur_op_name = "long_append";
        const std::size_t mx = v.max_size ();
        unsigned long long target = n;
        if (target > mx)
          target = mx;
        unsigned long long allocs = 0;
        std::uint64_t moved0 = g.tot_events[EV_CTOR_MOVE] + g.tot_events[EV_CTOR_COPY];
        std::size_t cap = v.capacity ();
        fault_plan none;
        begin_op (none, 0, 0);
        for (unsigned long long i = 0; i < target && ! g.violated; ++i)
        {
          const int x = static_cast<int> (i % 100);
          g.elog.clear (); // keep the log bounded
          switch (flav)
          {
            case 0:  v.emplace_back (x); break;
            case 1:  { E xv (x); v.push_back (std::move (xv)); } break;
            case 2:  v.emplace (v.cend (), x); break;
            default: { const int *p = &x; v.append (p, p + 1); } break;
          }
          const std::size_t c = v.capacity ();
          if (c != cap)
          {
            ++allocs;
            if (c < v.size ())
              violate ("growth.lt_required", "long run: capacity %lu < size %lu",
                       static_cast<unsigned long> (c), static_cast<unsigned long> (v.size ()));
            if (c < cap + (cap + 1) / 2 && c != mx)
              violate ("growth.lt_1_5", "long run: capacity %lu -> %lu after %llu appends",
                       static_cast<unsigned long> (cap), static_cast<unsigned long> (c), i + 1);
            cap = c;
          }
        }
        end_op ();
        // O(log n) allocations, O(n) relocations
        unsigned long long bound = 2;
        for (double c = 1.0; c < static_cast<double> (target) + 1.0; c *= 1.5)
          ++bound;
        if (allocs > bound)
          violate ("growth.alloc_count", "long run: %llu reallocations for %llu appends (bound "
                   "%llu)", allocs, target, bound);
        const std::uint64_t moved = g.tot_events[EV_CTOR_MOVE] + g.tot_events[EV_CTOR_COPY] - moved0;
        // O(n): with a growth factor g >= 1.5 the relocations sum to at most n / (1 - 1/g) <= 3n,
        // plus one construction from the argument per append
        if (E::instrumented && moved > 4ull * target + 64)
          violate ("growth.reloc_count", "long run: %llu element relocations for %llu appends",
                   static_cast<unsigned long long> (moved), target);
        if (v.size () != target)
          violate ("model.size", "long run: size %lu after %llu appends",
                   static_cast<unsigned long> (v.size ()), target);
        for (std::size_t k = 0; k < v.size (); k += (v.size () / 64 + 1))
          if (static_cast<int> (v[static_cast<typename V::size_type> (k)].value)
              != static_cast<int> (E (static_cast<int> (k % 100)).value))
          {
            violate ("model.values", "long run: element %lu wrong", static_cast<unsigned long> (k));
            break;
          }
        e.w.m[t].clear ();
      }
    };

    // ---------------------------------------------------------------- replay
    void
    replay (void)
    {
      engine_t e;
      configure (e, jb.replay_valmod, jb.replay_stream_faults);
      e.keep_trace = true;
      begin_line (0);
      ++tt.runs;
      const int bad = execute (e, jb.replay_ops, jb.replay_idbits);
      for (std::size_t k = 0; k < e.trace.size (); ++k)
        std::printf ("T %s\n", e.trace[k].c_str ());
      if (bad >= 0)
        report_violation (e, 0, jb.replay_ops, jb.replay_idbits, bad);
      finish_run (e, bad < 0);
      if (jb.digests)
        std::printf ("DIGEST %s 0 %016llx 0\n", uname, static_cast<unsigned long long> (e.digest.h));
    }

    void
    run (void)
    {
      // a wrong result in a trivially copyable universe is a fast path changing a result (C13);
      // in a narrow-size_type universe it is size arithmetic gone wrong (C12)
      G ().universe_props = (U::E::instrumented ? 0u : pbit (P13)) | (U::big ? pbit (P12) : 0u);
      if (jb.mode == "storm")
        storm ();
      else if (jb.mode == "sweep")
        sweep ();
      else if (jb.mode == "long")
        long_run ();
      else if (jb.mode == "replay")
        replay ();
    }
  };

} // namespace sim

#endif

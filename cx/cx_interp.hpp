// C08: a constexpr interpreter of operation histories over small_vector. The same function is
// evaluated by the compiler's constant evaluator (constexpr variable) and at run time; the
// per-step observation hashes must agree. Raw operands are reduced modulo the current state, so
// any numbers form a valid history (UB in a history would itself be a non-constant expression).
#ifndef SVSIM_CX_INTERP_HPP
#define SVSIM_CX_INTERP_HPP

#include <gch/small_vector.hpp>

#include <memory>

namespace cx
{

  enum kind
  {
    PUSH_BACK = 0, EMPLACE_BACK, INSERT_ONE, INSERT_N, INSERT_RANGE, EMPLACE, ERASE_ONE, ERASE_RANGE,
    POP_BACK, CLEAR, RESIZE, RESIZE_VAL, RESERVE, SHRINK, ASSIGN_N, ASSIGN_RANGE, ASSIGN_ILIST,
    COPY_ASSIGN, MOVE_ASSIGN, CROSS_COPY_ASSIGN, CROSS_MOVE_ASSIGN, SWAP, APPEND_RANGE, APPEND_COPY,
    APPEND_MOVE, COPY_CTOR, MOVE_CTOR, CROSS_COPY_CTOR, CROSS_MOVE_CTOR, NM_ERASE, NM_ERASE_IF,
    COMPARE, ACCESS, INSERT_ALIAS, PUSH_BACK_ALIAS, INSERT_N_ALIAS, EMPLACE_ALIAS,
    EMPLACE_BACK_ALIAS, RESIZE_ALIAS, NKINDS
  };

  struct op
  {
    unsigned k, t, p0, p1, p2;
  };

  static constexpr unsigned MAXSTEPS = 40;

  struct trace
  {
    unsigned long long h[MAXSTEPS] = {};
    unsigned           n           = 0;
    int                alloc_wrong_instance = 0; // blocks released through another allocator instance
    int                alloc_unknown        = 0;
    int                alloc_leaked         = 0;
  };

  struct hasher
  {
    unsigned long long h = 0xcbf29ce484222325ULL;
    constexpr void add (unsigned long long v)
    {
      for (int i = 0; i < 8; ++i)
        h = (h ^ ((v >> (8 * i)) & 0xff)) * 0x100000001b3ULL;
    }
  };

  // --- element types -------------------------------------------------------------------
  struct pod2
  {
    int a;
    int b;
    constexpr pod2 (void) : a (0), b (0) { }
    constexpr pod2 (int x) : a (x), b (x ^ 0x55) { }
    friend constexpr bool operator== (const pod2& x, const pod2& y) { return x.a == y.a && x.b == y.b; }
    friend constexpr bool operator< (const pod2& x, const pod2& y) { return x.a < y.a; }
  };

  struct nontrivial
  {
    int v;
    int tag;
    constexpr nontrivial (void) : v (0), tag (1) { }
    constexpr nontrivial (int x) : v (x), tag (1) { }
    constexpr nontrivial (const nontrivial& o) : v (o.v), tag (1) { }
    constexpr nontrivial (nontrivial&& o) noexcept : v (o.v), tag (1) { o.v = -1; }
    constexpr nontrivial& operator= (const nontrivial& o) { v = o.v; return *this; }
    constexpr nontrivial& operator= (nontrivial&& o) noexcept { v = o.v; o.v = -1; return *this; }
    constexpr ~nontrivial (void) { tag = 0; }
    friend constexpr bool operator== (const nontrivial& x, const nontrivial& y) { return x.v == y.v; }
    friend constexpr bool operator< (const nontrivial& x, const nontrivial& y) { return x.v < y.v; }
  };

  constexpr int val_of (int x) { return x; }
  constexpr int val_of (const pod2& x) { return x.a * 3 + x.b; }
  constexpr int val_of (const nontrivial& x) { return x.v * 2 + x.tag; }

  // --- a constexpr-capable stateful, fully propagating allocator ----------------------------
  // All instances of a run share an arena that keeps a balance of live blocks per allocator id;
  // a block released through an instance with another id, or still live at the end of the run,
  // unbalances it (C04 under constant evaluation).
  struct arena
  {
    // pointers to different allocations cannot be compared during constant evaluation, so the
    // bookkeeping is a balance per allocator id: it must never go negative and end at zero
    int live[4]         = {};
    int wrong_instance  = 0;
    int unknown         = 0;
    int n               = 0;

    constexpr void
    note_alloc (const void *, int id)
    {
      ++live[id & 3];
      ++n;
    }

    constexpr void
    note_dealloc (const void *, int id)
    {
      if (--live[id & 3] < 0)
        ++wrong_instance;
      --n;
    }

    constexpr int
    unbalanced (void) const
    {
      int u = 0;
      for (int i = 0; i < 4; ++i)
        if (live[i] != 0)
          ++u;
      return u;
    }
  };

  template <class T>
  struct prop_alloc
  {
    using value_type = T;
    using propagate_on_container_copy_assignment = std::true_type;
    using propagate_on_container_move_assignment = std::true_type;
    using propagate_on_container_swap            = std::true_type;
    using is_always_equal                        = std::false_type;
    int    id = 0;
    arena *ar = nullptr;
    constexpr prop_alloc (void) noexcept = default;
    constexpr prop_alloc (int i, arena *a) noexcept : id (i), ar (a) { }
    template <class U>
    constexpr prop_alloc (const prop_alloc<U>& o) noexcept : id (o.id), ar (o.ar) { }
    constexpr T *
    allocate (std::size_t n)
    {
      T *q = std::allocator<T> ().allocate (n);
      if (ar)
        ar->note_alloc (q, id);
      return q;
    }
    constexpr void
    deallocate (T *p, std::size_t n) noexcept
    {
      if (ar)
        ar->note_dealloc (p, id);
      std::allocator<T> ().deallocate (p, n);
    }
    template <class U>
    friend constexpr bool operator== (const prop_alloc& a, const prop_alloc<U>& b) noexcept { return a.id == b.id; }
    template <class U>
    friend constexpr bool operator!= (const prop_alloc& a, const prop_alloc<U>& b) noexcept { return a.id != b.id; }
  };

  template <class A>
  struct alloc_maker
  {
    static constexpr A make (int, arena *) { return A (); }
  };

  template <class T>
  struct alloc_maker<prop_alloc<T> >
  {
    static constexpr prop_alloc<T> make (int id, arena *a) { return prop_alloc<T> (id, a); }
  };

  struct mod_pred
  {
    int m, r;
    template <class X>
    constexpr bool operator() (const X& x) const { return ((val_of (x) % m) + m) % m == r; }
  };

  template <class V>
  constexpr void
  observe (hasher& h, const V& v, bool cap_comparable)
  {
    h.add (v.size ());
    for (std::size_t i = 0; i < v.size (); ++i)
      h.add (static_cast<unsigned long long> (static_cast<long long> (val_of (v[i]))));
    h.add (v.empty () ? 1 : 0);
    h.add (static_cast<unsigned long long> (v.end () - v.begin ()));
    if (cap_comparable)
      h.add (v.capacity ());
  }

  template <class V>
  constexpr void
  observe_into (trace& tr, unsigned i, const V& v)
  {
    hasher h;
    observe (h, v, false);
    tr.h[i] = h.h;
  }

  // Containers: a, c of inline capacity N (same type: swap, operator=), b of inline capacity M.
  template <class T, unsigned N, unsigned M, class A>
  constexpr trace
  run (const op *ops, unsigned n)
  {
    using VA = gch::small_vector<T, N, A>;
    using VB = gch::small_vector<T, M, A>;
    arena ar;
    trace tr;
    {
    VA a (alloc_maker<A>::make (1, &ar));
    VA c (alloc_maker<A>::make (2, &ar));
    VB b (alloc_maker<A>::make (1, &ar));
    bool capa = true, capb = true, capc = true; // capacity comparable between the two executors
    for (unsigned i = 0; i < n && i < MAXSTEPS; ++i)
    {
      const op& o = ops[i];
      // target: a or c (same type) -- b is reached through the cross-capacity ops
      VA& x    = (o.t & 1u) ? c : a;
      VA& y    = (o.t & 1u) ? a : c;
      bool& capx = (o.t & 1u) ? capc : capa;
      bool& capy = (o.t & 1u) ? capa : capc;
      const std::size_t sz  = x.size ();
      const std::size_t pos = o.p0 % (sz + 1);
      const std::size_t cnt = o.p1 % 7;
      const int         v0  = static_cast<int> (o.p2 % 97);
      T src[6] = { T (v0), T (v0 + 1), T (v0 + 2), T (v0 + 3), T (v0 + 4), T (v0 + 5) };
      const std::size_t rl = o.p1 % 7 > 6 ? 6 : o.p1 % 7;
      long long ret = -1;
      switch (o.k % NKINDS)
      {
        case PUSH_BACK:     x.push_back (T (v0)); break;
        case EMPLACE_BACK:  ret = val_of (x.emplace_back (v0)); break;
        case INSERT_ONE:    { auto it = x.insert (x.begin () + pos, T (v0)); ret = it - x.begin (); } break;
        case INSERT_N:      { auto it = x.insert (x.begin () + pos, cnt, T (v0)); ret = it - x.begin (); } break;
        case INSERT_RANGE:  { auto it = x.insert (x.begin () + pos, src, src + (rl > 6 ? 6 : rl)); ret = it - x.begin (); } break;
        case EMPLACE:       { auto it = x.emplace (x.begin () + pos, v0); ret = it - x.begin (); } break;
        case ERASE_ONE:     if (sz) { auto it = x.erase (x.begin () + (o.p0 % sz)); ret = it - x.begin (); } break;
        case ERASE_RANGE:
        {
          const std::size_t l = pos + o.p1 % (sz - pos + 1);
          { auto it = x.erase (x.begin () + pos, x.begin () + l); ret = it - x.begin (); }
          break;
        }
        case POP_BACK:      if (sz) x.pop_back (); break;
        case CLEAR:         x.clear (); break;
        case RESIZE:        x.resize (o.p1 % 12); break;
        case RESIZE_VAL:    x.resize (o.p1 % 12, T (v0)); break;
        case RESERVE:       x.reserve (o.p1 % 20); break;
        case SHRINK:        x.shrink_to_fit (); capx = true; break;
        case ASSIGN_N:      x.assign (o.p1 % 10, T (v0)); break;
        case ASSIGN_RANGE:  x.assign (src, src + (rl > 6 ? 6 : rl)); break;
        case ASSIGN_ILIST:  x = { T (v0), T (v0 + 7), T (v0 + 9) }; break;
        case COPY_ASSIGN:   x = y; break;
        case MOVE_ASSIGN:   x = std::move (y); capx = capy = false; y.clear (); break;
        case CROSS_COPY_ASSIGN: x.assign (b); break;
        case CROSS_MOVE_ASSIGN: x.assign (std::move (b)); capx = capb = false; b.clear (); break;
        case SWAP:          x.swap (y); capx = capy = false; break;
        case APPEND_RANGE:  x.append (src, src + (rl > 6 ? 6 : rl)); break;
        case APPEND_COPY:   b.append (x); break;
        case APPEND_MOVE:   x.append (std::move (b)); break;
        case COPY_CTOR:
        {
          VA tmp (x);
          observe_into (tr, i, tmp);
          break;
        }
        case MOVE_CTOR:
        {
          VA tmp (std::move (x));
          x.clear ();
          capx = false;
          x = tmp;
          break;
        }
        case CROSS_COPY_CTOR:
        {
          VB tmp (x);
          b = tmp;
          break;
        }
        case CROSS_MOVE_CTOR:
        {
          VA tmp (std::move (b));
          b.clear ();
          capb = false;
          x.append (tmp);
          break;
        }
        case NM_ERASE:      ret = static_cast<long long> (erase (x, T (v0))); break;
        case NM_ERASE_IF:   ret = static_cast<long long> (erase_if (x, mod_pred { 2 + static_cast<int> (o.p1 % 3), static_cast<int> (o.p0 % 2) })); break;
        case COMPARE:
          ret = (x == y ? 1 : 0) | (x != y ? 2 : 0) | (x < y ? 4 : 0) | (x <= y ? 8 : 0)
              | (x > y ? 16 : 0) | (x >= y ? 32 : 0) | (x == x ? 64 : 0);
          break;
        case ACCESS:
          if (sz)
            ret = val_of (x.front ()) + 3 * val_of (x.back ()) + 5 * val_of (x[o.p0 % sz])
                + 7 * val_of (x.at (o.p0 % sz)) + 11 * val_of (*x.data ()) + 13 * val_of (*(x.end () - 1));
          break;
        case INSERT_ALIAS:  if (sz) { auto it = x.insert (x.begin () + pos, x[o.p1 % sz]); ret = it - x.begin (); } break;
        case PUSH_BACK_ALIAS: if (sz) x.push_back (x[o.p1 % sz]); break;
        case INSERT_N_ALIAS: if (sz) { auto it = x.insert (x.begin () + pos, (o.p2 % 5), x[o.p1 % sz]); ret = it - x.begin (); } break;
        case EMPLACE_ALIAS:  if (sz) { auto it = x.emplace (x.begin () + pos, x[o.p1 % sz]); ret = it - x.begin (); } break;
        case EMPLACE_BACK_ALIAS: if (sz) ret = val_of (x.emplace_back (x[o.p1 % sz])); break;
        case RESIZE_ALIAS:   if (sz) x.resize (o.p2 % 12, x[o.p1 % sz]); break;
        default: break;
      }
      hasher h;
      h.h ^= tr.h[i];
      h.add (o.k % NKINDS);
      h.add (static_cast<unsigned long long> (ret));
      observe (h, a, capa);
      observe (h, b, capb);
      observe (h, c, capc);
      tr.h[i] = h.h;
      tr.n    = i + 1;
    }
    } // containers destroyed: every block must be back, through the instance that produced it
    tr.alloc_wrong_instance = ar.wrong_instance;
    tr.alloc_unknown        = ar.unknown;
    tr.alloc_leaked         = ar.n + ar.unbalanced ();
    return tr;
  }

} // namespace cx

#endif

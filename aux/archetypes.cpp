// C13 (archetype part): minimal-requirement element types, trivial and non-trivial, are
// instantiated with exactly the operations whose named requirements they meet (the ones
// std::vector accepts for them), and the results are compared with std::vector.
// If the header adds a requirement (e.g. assignability in a construct-only operation) this
// translation unit stops compiling: the compiler diagnostic is the counterexample.
#include <gch/small_vector.hpp>

#include <cstdio>
#include <iterator>
#include <memory>
#include <vector>

static unsigned long cases = 0, failures = 0;

static void
expect (bool ok, const char *type, const char *what)
{
  ++cases;
  if (! ok)
  {
    ++failures;
    std::printf ("ARCHFAIL %s: %s\n", type, what);
  }
}

template <class A, class B>
static bool
same (const A& a, const B& b)
{
  if (a.size () != b.size ())
    return false;
  for (std::size_t i = 0; i < a.size (); ++i)
    if (a[i].v != b[i].v)
      return false;
  return true;
}

// --- A1: trivially copyable, default + copy constructible, NOT assignable
struct a1
{
  int v;
  a1 (void) = default;
  explicit a1 (int x) : v (x) { }
  a1 (const a1&) = default;
  a1& operator= (const a1&) = delete;
};

// --- A2: non-trivial, default + nothrow-move constructible only (no copy, no assignment)
struct a2
{
  int v;
  a2 (void) : v (7) { }
  explicit a2 (int x) : v (x) { }
  a2 (a2&& o) noexcept : v (o.v) { o.v = -1; }
  a2 (const a2&) = delete;
  a2& operator= (a2&&) = delete;
  ~a2 (void) { v = -2; }
};

// --- A3: non-trivial, copy constructible only (no default ctor, no assignment)
struct a3
{
  int v;
  explicit a3 (int x) : v (x) { }
  a3 (const a3& o) : v (o.v) { }
  a3& operator= (const a3&) = delete;
  ~a3 (void) { v = -2; }
};

// --- A4: trivially copyable, no default constructor, copy constructible and assignable
struct a4
{
  int v;
  explicit a4 (int x) : v (x) { }
};

// --- A5: trivially copyable, throwing-looking (not noexcept) move, everything available
struct a5
{
  int v;
  a5 (void) = default;
  explicit a5 (int x) : v (x) { }
};

template <unsigned N>
static void
run_a1 (void)
{
  typedef gch::small_vector<a1, N> V;
  typedef std::vector<a1> S;
  V v (3); S s (3);
  expect (same (v, s) && v[0].v == 0, "a1", "V(n) value-initialises");
  const a1 x (5);
  v.push_back (x); s.push_back (x);
  v.emplace_back (6); s.emplace_back (6);
  v.emplace_back (); s.emplace_back ();
  v.reserve (20); s.reserve (20);
  v.resize (9); s.resize (9);
  v.resize (11, x); while (s.size () < 11) s.push_back (x); // (libstdc++'s resize(n,x) wants assignment)
  v.resize (4); s.resize (4);
  v.shrink_to_fit (); s.shrink_to_fit ();
  v.pop_back (); s.pop_back ();
  expect (same (v, s), "a1", "push/emplace/reserve/resize/shrink/pop sequence");
  V c (v); S cs (s);
  expect (same (c, cs), "a1", "copy construction");
  V m (std::move (c)); S ms (std::move (cs));
  expect (same (m, ms), "a1", "move construction");
  V r (s.data (), s.data () + s.size ());
  expect (same (r, s), "a1", "range construction from pointers");
  r.append (s.data (), s.data () + s.size ());
  S rs (s); for (std::size_t i = 0; i < s.size (); ++i) rs.push_back (s[i]);
  expect (same (r, rs), "a1", "append (range)");
  V n (4, x); S ns (4, x);
  expect (same (n, ns), "a1", "V(n, x)");
  n.clear (); ns.clear ();
  expect (same (n, ns), "a1", "clear");
}

template <unsigned N>
static void
run_a2 (void)
{
  typedef gch::small_vector<a2, N> V;
  typedef std::vector<a2> S;
  V v (3); S s (3);
  expect (same (v, s), "a2", "V(n)");
  v.emplace_back (5); s.emplace_back (5);
  v.push_back (a2 (6)); s.push_back (a2 (6));
  v.reserve (12); s.reserve (12);
  v.resize (8); s.resize (8);
  v.resize (2); s.resize (2);
  v.emplace_back (); s.emplace_back ();
  v.shrink_to_fit (); s.shrink_to_fit ();
  v.pop_back (); s.pop_back ();
  expect (same (v, s), "a2", "emplace/push(&&)/reserve/resize/shrink/pop sequence");
  V m (std::move (v)); S ms (std::move (s));
  expect (same (m, ms), "a2", "move construction");
  a2 src[3] = { a2 (1), a2 (2), a2 (3) };
  a2 src2[3] = { a2 (1), a2 (2), a2 (3) };
  V r (std::make_move_iterator (src), std::make_move_iterator (src + 3));
  S rs (std::make_move_iterator (src2), std::make_move_iterator (src2 + 3));
  expect (same (r, rs), "a2", "range construction from move_iterator");
  a2 src3[2] = { a2 (8), a2 (9) };
  a2 src4[2] = { a2 (8), a2 (9) };
  r.append (std::make_move_iterator (src3), std::make_move_iterator (src3 + 2));
  rs.push_back (std::move (src4[0])); rs.push_back (std::move (src4[1]));
  expect (same (r, rs), "a2", "append (move_iterator range)");
  r.clear (); rs.clear ();
  expect (same (r, rs), "a2", "clear");
}

template <unsigned N>
static void
run_a3 (void)
{
  typedef gch::small_vector<a3, N> V;
  typedef std::vector<a3> S;
  const a3 x (4);
  V v (3, x); S s (3, x);
  v.push_back (x); s.push_back (x);
  v.emplace_back (9); s.emplace_back (9);
  v.reserve (10); s.reserve (10);
  v.pop_back (); s.pop_back ();
  expect (same (v, s), "a3", "V(n,x)/push_back(const&)/emplace_back/reserve/pop");
  V c (v); S cs (s);
  expect (same (c, cs), "a3", "copy construction");
  V r (s.data (), s.data () + s.size ());
  expect (same (r, s), "a3", "range construction");
  r.append (s.begin (), s.end ());
  S rs (s); for (std::size_t i = 0; i < s.size (); ++i) rs.push_back (s[i]);
  expect (same (r, rs), "a3", "append (range)");
  r.append (c);
  for (std::size_t i = 0; i < cs.size (); ++i) rs.push_back (cs[i]);
  expect (same (r, rs), "a3", "append (const small_vector&)");
}

template <class T, unsigned N>
static void
run_assignable (const char *name)
{
  typedef gch::small_vector<T, N> V;
  typedef std::vector<T> S;
  const T x (4);
  V v (3, x); S s (3, x);
  v.insert (v.begin () + 1, T (8)); s.insert (s.begin () + 1, T (8));
  v.insert (v.begin (), 2, x); s.insert (s.begin (), 2, x);
  v.erase (v.begin () + 2); s.erase (s.begin () + 2);
  v.assign (5, T (1)); s.assign (5, T (1));
  v.push_back (T (2)); s.push_back (T (2));
  v.insert (v.begin () + 3, s.data (), s.data () + 2);
  s.insert (s.begin () + 3, T (1)); s.insert (s.begin () + 3, T (1));
  v.erase (v.begin (), v.begin () + 1); s.erase (s.begin (), s.begin () + 1);
  expect (same (v, s), name, "insert/erase/assign sequence");
  V w; w = v; S ws; ws = s;
  expect (same (w, ws), name, "copy assignment");
  V u (2, T (9));
  u.swap (w); S us (2, T (9)); us.swap (ws);
  expect (same (u, us) && same (w, ws), name, "swap");
}

// --- A6: trivially copyable with an overloaded unary operator& (containers must use addressof)
struct a6
{
  int v;
  int pad;
  a6 (int x) : v (x), pad (0) { }
  a6 *operator& (void) { static a6 decoy (-1); return std::addressof (decoy); }
  const a6 *operator& (void) const { static a6 decoy (-2); return std::addressof (decoy); }
};

#if __cplusplus >= 201703L
// --- A7: over-aligned element that depends on its alignment: every special member checks the
//     address it runs at (the stack copies the container makes of an argument count too)
static unsigned long misaligned = 0;
struct alignas (64) a7
{
  int v;
  static void at (const void *p) { if (reinterpret_cast<std::size_t> (p) % 64 != 0) ++misaligned; }
  a7 (int x) : v (x) { at (this); }
  a7 (const a7& o) : v (o.v) { at (this); at (&o); }
  a7& operator= (const a7& o) { at (this); at (&o); v = o.v; return *this; }
  ~a7 (void) { at (this); }
};

// run the same history at several stack depths modulo 64
template <unsigned N>
static void
run_a7_at (unsigned pad)
{
  volatile char *hole = static_cast<volatile char *> (__builtin_alloca (pad + 1));
  hole[0] = 0;
  run_assignable<a7, N> ("a7(alignas 64)");
  typedef gch::small_vector<a7, N> V;
  V v (4, a7 (1));
  v.reserve (12);
  v.emplace (v.begin () + 1, 7);
  v.insert (v.begin () + 2, v[0]);
  v.insert (v.begin () + 1, 2, v[3]);
  v.emplace (v.begin (), v[2]);
  expect (v.size () == 9 && v[0].v == 1 && v[2].v == 1, "a7(alignas 64)", "emplace / insert in place");
}
#endif

// --- A8: pointer elements built from ARRAY lvalues (array-to-pointer conversion): a range whose
//     reference type is an array (the rows of a two-dimensional array), and emplace with an array
template <unsigned N>
static void
run_array_sources (void)
{
  static int grid[5][4];
  static const char name_a[] = "alpha", name_b[] = "be", name_c[] = "c";
  const char *type = "pointer <- array";
  {
    gch::small_vector<int *, N> v (grid, grid + 3);
    std::vector<int *> s (grid, grid + 3);
    bool ok = v.size () == s.size ();
    for (std::size_t i = 0; ok && i < s.size (); ++i)
      ok = v[i] == s[i] && v[i] == &grid[i][0];
    expect (ok, type, "range constructor from rows of int[5][4]");
    v.assign (grid + 1, grid + 5); s.assign (grid + 1, grid + 5);
    ok = v.size () == s.size ();
    for (std::size_t i = 0; ok && i < s.size (); ++i)
      ok = v[i] == s[i];
    expect (ok, type, "assign from rows");
    v.insert (v.begin () + 1, grid, grid + 2); s.insert (s.begin () + 1, grid, grid + 2);
    v.insert (v.end (), grid + 2, grid + 5); s.insert (s.end (), grid + 2, grid + 5);
    v.append (grid, grid + 1); s.insert (s.end (), grid, grid + 1);
    ok = v.size () == s.size ();
    for (std::size_t i = 0; ok && i < s.size (); ++i)
      ok = v[i] == s[i];
    expect (ok, type, "insert / append from rows");
    gch::small_vector<const int *, N> c (grid, grid + 5);
    ok = c.size () == 5;
    for (std::size_t i = 0; ok && i < 5; ++i)
      ok = c[i] == &grid[i][0];
    expect (ok, type, "const int* from rows");
    gch::small_vector<void *, N> w (grid, grid + 5);
    ok = w.size () == 5;
    for (std::size_t i = 0; ok && i < 5; ++i)
      ok = w[i] == static_cast<void *> (&grid[i][0]);
    expect (ok, type, "void* from rows");
  }
  {
    gch::small_vector<const char *, N> v;
    std::vector<const char *> s;
    v.emplace_back (name_a); s.emplace_back (name_a);
    v.emplace (v.begin (), name_b); s.emplace (s.begin (), name_b);
    v.emplace_back (name_c); s.emplace_back (name_c);
    v.emplace (v.end (), name_a); s.emplace (s.end (), name_a);
    v.push_back (name_b); s.push_back (name_b);
    v.insert (v.begin () + 1, name_c); s.insert (s.begin () + 1, name_c);
    bool ok = v.size () == s.size ();
    for (std::size_t i = 0; ok && i < s.size (); ++i)
      ok = v[i] == s[i];
    expect (ok, type, "emplace / emplace_back / push_back / insert with char arrays");
  }
}

// --- A9: the argument is not an element but an object OWNED by an element (reached through a
//     pointer member), and the element type has deep-copying copy operations and no move
//     operations: shifting the tail assigns over the owner and destroys the argument. std::vector
//     gives the copy-first result for every such call.
struct node
{
  int   id;
  node *child;
  explicit node (int i, int c = -1) : id (i), child (c < 0 ? 0 : new node (c)) { }
  node (const node& o) : id (o.id), child (o.child ? new node (*o.child) : 0) { }
  node& operator= (const node& o)
  {
    if (this != &o)
    {
      node *c = o.child ? new node (*o.child) : 0;
      delete child;
      child = c;
      id    = o.id;
    }
    return *this;
  }
  ~node (void) { delete child; id = -777; }
};

static long
node_key (const node& x)
{
  return x.id * 1000L + (x.child ? x.child->id : -1);
}

template <class A, class B>
static bool
same_nodes (const A& a, const B& b)
{
  if (a.size () != b.size ())
    return false;
  for (std::size_t i = 0; i < a.size (); ++i)
    if (node_key (a[i]) != node_key (b[i]))
      return false;
  return true;
}

template <unsigned N>
static void
run_owned_argument (void)
{
  typedef gch::small_vector<node, N> V;
  typedef std::vector<node> S;
  bool ok = true;
  unsigned long n_cases = 0;
  for (unsigned size = 1; size <= 6 && ok; ++size)
    for (unsigned pos = 0; pos <= size && ok; ++pos)
      for (unsigned owner = 0; owner < size && ok; ++owner)
        for (unsigned count = 0; count <= 7 && ok; ++count)
          for (int roomy = 0; roomy < 2 && ok; ++roomy)
            for (int op = 0; op < 5 && ok; ++op)
            {
              V v; S s;
              if (roomy) { v.reserve (16); s.reserve (16); }
              for (unsigned k = 0; k < size; ++k)
              {
                v.push_back (node (static_cast<int> (k), static_cast<int> (100 + k)));
                s.push_back (node (static_cast<int> (k), static_cast<int> (100 + k)));
              }
              ++n_cases;
              switch (op)
              {
                case 0: v.insert (v.begin () + pos, count, *v[owner].child);
                        s.insert (s.begin () + pos, count, *s[owner].child); break;
                case 1: v.insert (v.begin () + pos, *v[owner].child);
                        s.insert (s.begin () + pos, *s[owner].child); break;
                case 2: v.emplace (v.begin () + pos, *v[owner].child);
                        s.emplace (s.begin () + pos, *s[owner].child); break;
                case 3: v.push_back (*v[owner].child); v.emplace_back (*v[owner].child);
                        s.push_back (*s[owner].child); s.emplace_back (*s[owner].child); break;
                default: v.resize (count, *v[owner].child);
                         s.resize (count, *s[owner].child); break;
              }
              ok = same_nodes (v, s);
              if (! ok)
                std::printf ("ARCHDETAIL node N=%u size=%u pos=%u owner=%u count=%u roomy=%d op=%d\n", N, size,
                             pos, owner, count, roomy, op);
            }
  cases += n_cases;
  expect (ok, "node(owned argument)", "insert / emplace / push_back / resize with an argument owned by an element");
}

// --- value-initialisation of trivially constructible types whose null value is not all-zero
//     bytes (pointers to data members), alone and inside a trivial aggregate
struct rec { int a; int b; };
struct selector { int rec::*which; int weight; };
static bool operator== (const selector& x, const selector& y) { return x.which == y.which && x.weight == y.weight; }

template <class T, unsigned N>
static void
run_value_init (const char *name)
{
  typedef gch::small_vector<T, N> V;
  const T zero = T ();
  V v (3);
  bool ok = v.size () == 3;
  for (std::size_t i = 0; ok && i < v.size (); ++i)
    ok = v[i] == zero;
  expect (ok, name, "V(n) value-initialises every element");
  v.resize (10);
  ok = v.size () == 10;
  for (std::size_t i = 0; ok && i < v.size (); ++i)
    ok = v[i] == zero;
  expect (ok, name, "resize(n) value-initialises the new elements (reallocating)");
  v.resize (2);
  v.resize (7);
  ok = v.size () == 7;
  for (std::size_t i = 0; ok && i < v.size (); ++i)
    ok = v[i] == zero;
  expect (ok, name, "resize(n) value-initialises the new elements (in place)");
  v.emplace_back ();
  expect (v.back () == zero, name, "emplace_back() value-initialises");
}

int
main (void)
{
  run_value_init<int rec::*, 0> ("int rec::*"); run_value_init<int rec::*, 4> ("int rec::*");
  run_value_init<selector, 0> ("selector{int rec::*, int}"); run_value_init<selector, 4> ("selector{int rec::*, int}");
  run_value_init<double, 3> ("double"); run_value_init<void *, 3> ("void*");
  run_value_init<int (rec::*) (void), 2> ("int (rec::*)()");
  run_a1<0> (); run_a1<2> (); run_a1<16> ();
  run_a2<0> (); run_a2<2> (); run_a2<16> ();
  run_a3<0> (); run_a3<2> (); run_a3<16> ();
  run_assignable<a4, 0> ("a4"); run_assignable<a4, 3> ("a4"); run_assignable<a4, 16> ("a4");
  run_assignable<a5, 0> ("a5"); run_assignable<a5, 3> ("a5"); run_assignable<a5, 16> ("a5");
  run_array_sources<0> (); run_array_sources<2> (); run_array_sources<16> ();
  run_owned_argument<0> (); run_owned_argument<4> ();
  run_assignable<a6, 0> ("a6(operator&)"); run_assignable<a6, 3> ("a6(operator&)"); run_assignable<a6, 16> ("a6(operator&)");
#if __cplusplus >= 201703L
  for (unsigned pad = 0; pad < 64; pad += 16)
  {
    run_a7_at<0> (pad); run_a7_at<3> (pad); run_a7_at<16> (pad);
  }
  expect (misaligned == 0, "a7(alignas 64)", "every element operation ran at an address aligned to alignof (T)");
#endif
  std::printf ("ARCH cases=%lu failures=%lu\n", cases, failures);
  return failures ? 1 : 0;
}

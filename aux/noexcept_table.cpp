// C18 (static part): the documented noexcept / type-trait contract, transcribed from README.md,
// compared with what the header declares, over a grid of element traits x allocator traits x
// inline capacities x source capacities. Prints one line per mismatch and a ROWS summary.
#include <gch/small_vector.hpp>

#include <cstdio>
#include <iterator>
#include <memory>
#include <type_traits>
#include <utility>

template <bool MC, bool MA, bool SW>
struct tt
{
  int v;
  tt (void);
  tt (const tt&);
  tt (tt&&) noexcept (MC);
  tt& operator= (const tt&);
  tt& operator= (tt&&) noexcept (MA);
  ~tt (void);
  friend void swap (tt&, tt&) noexcept (SW) { }
};

template <class T, bool POCCA, bool POCMA, bool POCS, bool AE, bool NothrowDefault = true>
struct talloc
{
  typedef T value_type;
  typedef std::integral_constant<bool, POCCA> propagate_on_container_copy_assignment;
  typedef std::integral_constant<bool, POCMA> propagate_on_container_move_assignment;
  typedef std::integral_constant<bool, POCS>  propagate_on_container_swap;
  typedef std::integral_constant<bool, AE>    is_always_equal;
  template <class U> struct rebind { typedef talloc<U, POCCA, POCMA, POCS, AE, NothrowDefault> other; };
  int id;
  talloc (void) noexcept (NothrowDefault) : id (0) { }
  talloc (const talloc& o) noexcept : id (o.id) { }
  talloc& operator= (const talloc& o) noexcept { id = o.id; return *this; }
  template <class U> talloc (const talloc<U, POCCA, POCMA, POCS, AE, NothrowDefault>& o) noexcept : id (o.id) { }
  T *allocate (std::size_t n) { return static_cast<T *> (::operator new (n * sizeof (T))); }
  void deallocate (T *p, std::size_t) noexcept { ::operator delete (p); }
};
template <class T, class U, bool A, bool B, bool C, bool D, bool E>
bool operator== (const talloc<T, A, B, C, D, E>& x, const talloc<U, A, B, C, D, E>& y) noexcept { return D || x.id == y.id; }
template <class T, class U, bool A, bool B, bool C, bool D, bool E>
bool operator!= (const talloc<T, A, B, C, D, E>& x, const talloc<U, A, B, C, D, E>& y) noexcept { return ! (x == y); }

static unsigned long rows = 0, mismatches = 0;

static void
row (bool declared, bool documented, const char *what, const char *t, const char *a, unsigned n, int i)
{
  ++rows;
  if (declared != documented)
  {
    ++mismatches;
    std::printf ("MISMATCH %s T=%s A=%s N=%u I=%d declared=%d documented=%d\n", what, t, a, n, i,
                 declared, documented);
  }
}

#if defined (__cpp_lib_allocator_traits_is_always_equal)
template <class A> struct ae_of : std::allocator_traits<A>::is_always_equal { };
#else
template <class A> struct ae_of : std::false_type { };
#endif

namespace adl_swap_probe
{
  using std::swap;
  template <class T>
  struct nothrow_swappable
    : std::integral_constant<bool, noexcept (swap (std::declval<T&> (), std::declval<T&> ()))> { };
}

template <class T, class A, unsigned N, unsigned I>
void
converting_rows (const char *t, const char *a)
{
  typedef gch::small_vector<T, N, A> V;
  typedef gch::small_vector<T, I, A> S;
  const bool mc = std::is_nothrow_move_constructible<T>::value;
  const bool ma = std::is_nothrow_move_assignable<T>::value;
  const bool is_std = std::is_same<A, std::allocator<T> >::value;
  const bool movable = is_std || std::allocator_traits<A>::propagate_on_container_move_assignment::value
                    || ae_of<A>::value;
  // README: LessI < N: noexcept (nothrow move constructible); GreaterI: no noexcept
  row (noexcept (V (std::declval<S&&> ())), I < N && mc, "converting move ctor", t, a, N, I);
  row (noexcept (std::declval<V&> ().assign (std::declval<S&&> ())), I < N && movable && ma && mc,
       "assign(small_vector<T,I>&&)", t, a, N, I);
  row (noexcept (V (std::declval<const S&> ())), false, "converting copy ctor", t, a, N, I);
  row (noexcept (V (std::declval<S&&> (), std::declval<const A&> ())), false,
       "converting move ctor + alloc", t, a, N, I);
}

template <class T, class A, unsigned N, unsigned I0, unsigned I1>
void
converting_rows2 (const char *t, const char *a)
{
  converting_rows<T, A, N, I0> (t, a);
  converting_rows<T, A, N, I1> (t, a);
}

template <class T, class A, unsigned N>
void
rows_for (const char *t, const char *a)
{
  typedef gch::small_vector<T, N, A> V;
  const bool mc = std::is_nothrow_move_constructible<T>::value;
  const bool ma = std::is_nothrow_move_assignable<T>::value;
  const bool sw = adl_swap_probe::nothrow_swappable<T>::value;
  const bool is_std = std::is_same<A, std::allocator<T> >::value;
  const bool movable = is_std || std::allocator_traits<A>::propagate_on_container_move_assignment::value
                    || ae_of<A>::value;
  const bool swappable = is_std || std::allocator_traits<A>::propagate_on_container_swap::value
                      || ae_of<A>::value;
  row (noexcept (V ()), noexcept (A ()), "default ctor", t, a, N, -1);
  row (noexcept (V (std::declval<V&&> ())), mc || N == 0, "move ctor", t, a, N, -1);
  row (noexcept (V (std::declval<const A&> ())), true, "allocator ctor", t, a, N, -1);
  row (noexcept (V (std::declval<const V&> ())), false, "copy ctor", t, a, N, -1);
  row (noexcept (std::declval<V&> () = std::declval<V&&> ()), movable && ((ma && mc) || N == 0),
       "move assignment", t, a, N, -1);
  row (noexcept (std::declval<V&> ().assign (std::declval<V&&> ())),
       movable && ((ma && mc) || N == 0), "assign(small_vector&&)", t, a, N, -1);
  row (noexcept (std::declval<V&> ().swap (std::declval<V&> ())),
       swappable && ((mc && ma && sw) || N == 0), "swap", t, a, N, -1);
  {
    using std::swap;
    row (noexcept (swap (std::declval<V&> (), std::declval<V&> ())),
         swappable && ((mc && ma && sw) || N == 0), "non-member swap", t, a, N, -1);
  }
  row (noexcept (std::declval<V&> ().clear ()), true, "clear", t, a, N, -1);
  row (noexcept (std::declval<V&> ().begin ()) && noexcept (std::declval<const V&> ().begin ())
       && noexcept (std::declval<const V&> ().cbegin ()) && noexcept (std::declval<V&> ().end ())
       && noexcept (std::declval<const V&> ().end ()) && noexcept (std::declval<const V&> ().cend ())
       && noexcept (std::declval<V&> ().rbegin ()) && noexcept (std::declval<const V&> ().rbegin ())
       && noexcept (std::declval<const V&> ().crbegin ()) && noexcept (std::declval<V&> ().rend ())
       && noexcept (std::declval<const V&> ().rend ()) && noexcept (std::declval<const V&> ().crend ()),
       true, "iterator accessors", t, a, N, -1);
  row (noexcept (std::declval<V&> ().data ()) && noexcept (std::declval<const V&> ().data ())
       && noexcept (std::declval<const V&> ().empty ()) && noexcept (std::declval<const V&> ().size ())
       && noexcept (std::declval<const V&> ().max_size ())
       && noexcept (std::declval<const V&> ().capacity ())
       && noexcept (std::declval<const V&> ().get_allocator ())
       && noexcept (std::declval<const V&> ().inlined ())
       && noexcept (std::declval<const V&> ().inlinable ()) && noexcept (V::inline_capacity ()),
       true, "observers", t, a, N, -1);
  row (noexcept (std::declval<V&> ().push_back (std::declval<T&&> ()))
       || noexcept (std::declval<V&> ().reserve (1)) || noexcept (std::declval<V&> ().shrink_to_fit ())
       || noexcept (std::declval<V&> ().resize (1)) || noexcept (std::declval<V&> ().pop_back ())
       || noexcept (std::declval<V&> ().at (0)),
       false, "growing/checked members are not noexcept", t, a, N, -1);
  // iterator and nested-type contract
  typedef typename V::iterator it;
  typedef typename V::const_iterator cit;
  row (std::is_trivially_copyable<it>::value && std::is_trivially_copyable<cit>::value, true,
       "iterators trivially copyable", t, a, N, -1);
  row (std::is_same<typename std::iterator_traits<it>::iterator_category,
                    std::random_access_iterator_tag>::value
       && std::is_same<typename std::iterator_traits<cit>::iterator_category,
                       std::random_access_iterator_tag>::value,
       true, "iterator_category random access", t, a, N, -1);
#if defined (__cpp_lib_concepts) && ! defined (GCH_DISABLE_CONCEPTS)
  row (std::contiguous_iterator<it> && std::contiguous_iterator<cit>, true,
       "iterators model contiguous_iterator", t, a, N, -1);
#endif
  row (std::is_convertible<it, cit>::value && ! std::is_convertible<cit, it>::value, true,
       "iterator -> const_iterator only", t, a, N, -1);
  row (std::is_same<typename V::value_type, T>::value
       && std::is_same<typename V::allocator_type, A>::value
       && std::is_same<typename V::reference, T&>::value
       && std::is_same<typename V::const_reference, const T&>::value
       && std::is_same<typename V::pointer, typename std::allocator_traits<A>::pointer>::value
       && std::is_same<typename V::const_pointer, typename std::allocator_traits<A>::const_pointer>::value
       && std::is_same<typename V::size_type, typename std::allocator_traits<A>::size_type>::value
       && std::is_signed<typename V::difference_type>::value
       && std::is_same<typename V::reverse_iterator, std::reverse_iterator<it> >::value
       && std::is_same<typename V::const_reverse_iterator, std::reverse_iterator<cit> >::value,
       true, "nested types", t, a, N, -1);
  converting_rows2<T, A, N, (N == 0 ? 1 : 0), (N == 3 ? 1 : 3)> (t, a);
}

template <class T, class A>
void
rows_n (const char *t, const char *a)
{
  rows_for<T, A, 0> (t, a);
  rows_for<T, A, 1> (t, a);
  rows_for<T, A, 3> (t, a);
}

template <class T>
void
rows_a (const char *t)
{
  rows_n<T, std::allocator<T> > (t, "std::allocator");
#define TA(a, b, c, d) rows_n<T, talloc<T, a, b, c, d> > (t, "talloc<" #a "," #b "," #c "," #d ">");
  TA (false, false, false, false) TA (false, false, false, true) TA (false, false, true, false)
  TA (false, false, true, true)   TA (false, true, false, false) TA (false, true, false, true)
  TA (false, true, true, false)   TA (false, true, true, true)   TA (true, false, false, false)
  TA (true, true, false, false)   TA (true, false, true, false)  TA (true, true, true, true)
#undef TA
  rows_n<T, talloc<T, false, false, false, false, false> > (t, "talloc<0,0,0,0,throwing-default>");
}

int
main (void)
{
  rows_a<tt<true, true, true> > ("tt<mc,ma,sw>");
  rows_a<tt<true, true, false> > ("tt<mc,ma,-->");
  rows_a<tt<true, false, true> > ("tt<mc,--,sw>");
  rows_a<tt<true, false, false> > ("tt<mc,--,-->");
  rows_a<tt<false, true, true> > ("tt<--,ma,sw>");
  rows_a<tt<false, true, false> > ("tt<--,ma,-->");
  rows_a<tt<false, false, true> > ("tt<--,--,sw>");
  rows_a<tt<false, false, false> > ("tt<--,--,-->");
  rows_a<int> ("int");
  std::printf ("ROWS %lu MISMATCHES %lu\n", rows, mismatches);
  return mismatches ? 1 : 0;
}

// C01 (element-type breadth): seeded call histories replayed in lockstep on small_vector<T> and
// std::vector<T> for "real" element types the instrumented engine does not instantiate:
// std::string, std::unique_ptr (move-only), std::shared_ptr (use counts reveal leaks and double
// destruction), std::pair, nested std::vector, long double, std::array, pointers to data
// members and function pointers. Plain differential checking under ASan; no fault dimension.
#include <gch/small_vector.hpp>

#include <array>
#include <cstdint>
#include <cstdio>
#include <memory>
#include <string>
#include <utility>
#include <vector>

static unsigned long cases = 0, failures = 0;

struct rng
{
  std::uint64_t s;
  explicit rng (std::uint64_t seed) : s (seed * 0x9E3779B97F4A7C15ULL + 1) { }
  std::uint32_t next (void) { s ^= s << 13; s ^= s >> 7; s ^= s << 17; return static_cast<std::uint32_t> (s >> 16); }
  std::uint32_t below (std::uint32_t n) { return n ? next () % n : 0; }
};

template <class T> struct ops;

template <> struct ops<std::string>
{
  static std::string make (int i) { return std::string (static_cast<std::size_t> (i % 40), static_cast<char> ('a' + i % 26)) + std::to_string (i); }
  static long key (const std::string& s) { long h = static_cast<long> (s.size ()); for (char c : s) h = h * 31 + c; return h; }
  static const bool copyable = true;
};
template <> struct ops<std::unique_ptr<int> >
{
  static std::unique_ptr<int> make (int i) { return std::unique_ptr<int> (new int (i)); }
  static long key (const std::unique_ptr<int>& p) { return p ? *p : -1; }
  static const bool copyable = false;
};
static std::shared_ptr<int> g_shared[8];
template <> struct ops<std::shared_ptr<int> >
{
  static std::shared_ptr<int> make (int i) { if (! g_shared[i % 8]) g_shared[i % 8] = std::make_shared<int> (i % 8); return g_shared[i % 8]; }
  static long key (const std::shared_ptr<int>& p) { return p ? *p : -1; }
  static const bool copyable = true;
};
template <> struct ops<std::pair<int, std::string> >
{
  static std::pair<int, std::string> make (int i) { return std::make_pair (i, std::to_string (i * 7)); }
  static long key (const std::pair<int, std::string>& p) { return p.first * 131 + static_cast<long> (p.second.size ()); }
  static const bool copyable = true;
};
template <> struct ops<std::vector<int> >
{
  static std::vector<int> make (int i) { return std::vector<int> (static_cast<std::size_t> (i % 5), i); }
  static long key (const std::vector<int>& v) { long h = static_cast<long> (v.size ()); for (int x : v) h = h * 17 + x; return h; }
  static const bool copyable = true;
};
template <> struct ops<long double>
{
  static long double make (int i) { return i * 0.25L; }
  static long key (long double d) { return static_cast<long> (d * 4); }
  static const bool copyable = true;
};
template <> struct ops<std::array<char, 3> >
{
  static std::array<char, 3> make (int i) { std::array<char, 3> a = { { static_cast<char> (i), static_cast<char> (i >> 3), 'x' } }; return a; }
  static long key (const std::array<char, 3>& a) { return a[0] * 65536L + a[1] * 256 + a[2]; }
  static const bool copyable = true;
};
struct rec { int a, b, c; };
template <> struct ops<int rec::*>
{
  static int rec::*make (int i) { return i % 4 == 0 ? static_cast<int rec::*> (0) : (i % 4 == 1 ? &rec::a : (i % 4 == 2 ? &rec::b : &rec::c)); }
  static long key (int rec::*p) { return p == 0 ? -1 : (p == &rec::a ? 1 : (p == &rec::b ? 2 : 3)); }
  static const bool copyable = true;
};
static int f0 (void) { return 0; }
static int f1 (void) { return 1; }
template <> struct ops<int (*) (void)>
{
  static int (*make (int i)) (void) { return i % 3 == 0 ? static_cast<int (*) (void)> (0) : (i % 3 == 1 ? &f0 : &f1); }
  static long key (int (*p) (void)) { return p ? p () : -1; }
  static const bool copyable = true;
};

template <class T, class A, class B>
static bool
same (const A& a, const B& b)
{
  if (a.size () != b.size ())
    return false;
  for (std::size_t i = 0; i < a.size (); ++i)
    if (ops<T>::key (a[i]) != ops<T>::key (b[i]))
      return false;
  return true;
}

template <class T, class V, class S>
static void
copy_ops (V& v, S& s, V& w, S& ws, rng& r, std::true_type)
{
  const std::size_t n = v.size ();
  switch (r.below (9))
  {
    case 0: { T x = ops<T>::make (static_cast<int> (r.below (100))); v.push_back (x); s.push_back (x); } break;
    case 1: { T x = ops<T>::make (static_cast<int> (r.below (100))); std::size_t p = r.below (static_cast<std::uint32_t> (n + 1)); std::size_t c = r.below (4);
              v.insert (v.begin () + p, c, x); s.insert (s.begin () + p, c, x); } break;
    case 2: { T x = ops<T>::make (static_cast<int> (r.below (100))); std::size_t c = r.below (9); v.assign (c, x); s.assign (c, x); } break;
    case 3: { T x = ops<T>::make (static_cast<int> (r.below (100))); std::size_t c = r.below (12); v.resize (c, x); s.resize (c, x); } break;
    case 4: w = v; ws = s; break;
    case 5: { V t (v); S ts (s); w.swap (t); ws.swap (ts); } break;
    case 6: if (n) { std::size_t i = r.below (static_cast<std::uint32_t> (n)); std::size_t p = r.below (static_cast<std::uint32_t> (n + 1));
                     T x = s[i]; v.insert (v.begin () + p, v[i]); s.insert (s.begin () + p, x); } break;
    case 7: { std::size_t p = r.below (static_cast<std::uint32_t> (n + 1)); v.insert (v.begin () + p, ws.begin (), ws.end ()); s.insert (s.begin () + p, ws.begin (), ws.end ()); } break;
    default: v.append (w); s.insert (s.end (), ws.begin (), ws.end ()); break;
  }
}

template <class T, class V, class S>
static void
copy_ops (V&, S&, V&, S&, rng&, std::false_type)
{ }

template <class T, unsigned N>
static void
history (std::uint64_t seed, const char *name)
{
  typedef gch::small_vector<T, N> V;
  typedef std::vector<T> S;
  rng r (seed);
  V v, w;
  S s, ws;
  const unsigned nops = 20 + r.below (30);
  for (unsigned k = 0; k < nops; ++k)
  {
    const std::size_t n = v.size ();
    switch (r.below (14))
    {
      case 0: { int x = static_cast<int> (r.below (100)); v.push_back (ops<T>::make (x)); s.push_back (ops<T>::make (x)); } break;
      case 1: { int x = static_cast<int> (r.below (100)); v.emplace_back (ops<T>::make (x)); s.emplace_back (ops<T>::make (x)); } break;
      case 2: { int x = static_cast<int> (r.below (100)); std::size_t p = r.below (static_cast<std::uint32_t> (n + 1));
                v.insert (v.begin () + p, ops<T>::make (x)); s.insert (s.begin () + p, ops<T>::make (x)); } break;
      case 3: if (n) { std::size_t p = r.below (static_cast<std::uint32_t> (n)); v.erase (v.begin () + p); s.erase (s.begin () + p); } break;
      case 4: { std::size_t a = r.below (static_cast<std::uint32_t> (n + 1)); std::size_t b = a + r.below (static_cast<std::uint32_t> (n - a + 1));
                v.erase (v.begin () + a, v.begin () + b); s.erase (s.begin () + a, s.begin () + b); } break;
      case 5: if (n) { v.pop_back (); s.pop_back (); } break;
      case 6: { std::size_t c = r.below (12); v.resize (c); s.resize (c); } break;
      case 7: { std::size_t c = r.below (24); v.reserve (c); s.reserve (c); } break;
      case 8: v.shrink_to_fit (); break;
      case 9: w = std::move (v); ws = std::move (s); v.clear (); s.clear (); break;
      case 10: v.swap (w); s.swap (ws); break;
      case 11: { V t (std::move (w)); S ts (std::move (ws)); w.clear (); ws.clear (); v.append (std::move (t)); for (auto& e : ts) s.push_back (std::move (e)); } break;
      default: copy_ops<T> (v, s, w, ws, r, std::integral_constant<bool, ops<T>::copyable> ()); break;
    }
    ++cases;
    if (! same<T> (v, s) || ! same<T> (w, ws))
    {
      ++failures;
      if (failures <= 10)
        std::printf ("REALFAIL T=%s N=%u seed=%llu step=%u\n", name, N, static_cast<unsigned long long> (seed), k);
      return;
    }
  }
}

template <class T>
static void
for_type (const char *name, std::uint64_t base, unsigned count)
{
  for (unsigned i = 0; i < count; ++i)
  {
    history<T, 0> (base + i, name);
    history<T, 1> (base + i, name);
    history<T, 4> (base + i, name);
    history<T, 16> (base + i, name);
  }
}

int
main (int argc, char **argv)
{
  const std::uint64_t base = argc > 1 ? std::strtoull (argv[1], 0, 10) * 1000003ULL : 1000003ULL;
  const unsigned count = argc > 2 ? static_cast<unsigned> (std::atoi (argv[2])) : 400;
  for_type<std::string> ("std::string", base, count);
  for_type<std::unique_ptr<int> > ("std::unique_ptr<int>", base, count);
  for_type<std::shared_ptr<int> > ("std::shared_ptr<int>", base, count);
  for_type<std::pair<int, std::string> > ("std::pair<int,std::string>", base, count);
  for_type<std::vector<int> > ("std::vector<int>", base, count);
  for_type<long double> ("long double", base, count);
  for_type<std::array<char, 3> > ("std::array<char,3>", base, count);
  for_type<int rec::*> ("int rec::*", base, count);
  for_type<int (*) (void)> ("int(*)()", base, count);
  // every shared_ptr handed out must be back to exactly one owner (the global table)
  for (int i = 0; i < 8; ++i)
    if (g_shared[i] && g_shared[i].use_count () != 1)
    {
      ++failures;
      std::printf ("REALFAIL shared_ptr use_count %ld after all containers were destroyed\n", g_shared[i].use_count ());
    }
  std::printf ("REAL cases=%lu failures=%lu\n", cases, failures);
  return failures ? 1 : 0;
}

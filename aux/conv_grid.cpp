// C13 (conversion part): every stored element must equal static_cast<T> (source) when a
// container is built / assigned / inserted into / appended to from a range of a different but
// convertible type, for every source iterator kind. Plain differential checking (no fault
// dimension); the only "simulation" is the iterator seam (pointer / forward / input wrappers).
#include <gch/small_vector.hpp>

#include <cstdint>
#include <cstdio>
#include <iterator>
#include <limits>
#include <type_traits>
#include <vector>

static unsigned long cases = 0, failures = 0;

// a plain array (std::vector<bool> is not a container of bool)
template <class T>
struct buf
{
  T           a[40];
  std::size_t n;
  buf (void) : a (), n (0) { }
  void push_back (const T& x) { a[n++] = x; }
  const T *data (void) const { return a; }
  std::size_t size (void) const { return n; }
  const T& operator[] (std::size_t i) const { return a[i]; }
};

template <class To, unsigned N, class It, class From>
static void run_ops (It first, It last, const buf<From>& src, const char *name, const char *itname);

template <class To, class From>
static void
std_vector_source (const buf<From>& src, const char *name, std::false_type)
{
  std::vector<From> v (src.data (), src.data () + src.size ());
  typename std::vector<From>::const_iterator vb = v.begin (), ve = v.end ();
  run_ops<To, 4> (vb, ve, src, name, "vector::const_iterator");
}

template <class To, class From>
static void
std_vector_source (const buf<From>&, const char *, std::true_type /* bool */)
{ }

template <class V, class Cat>
struct wrap_iter
{
  typedef Cat                iterator_category;
  typedef V                  value_type;
  typedef std::ptrdiff_t     difference_type;
  typedef const V           *pointer;
  typedef const V&           reference;
  const V *p;
  wrap_iter (void) : p (0) { }
  explicit wrap_iter (const V *p_) : p (p_) { }
  reference operator* (void) const { return *p; }
  wrap_iter& operator++ (void) { ++p; return *this; }
  wrap_iter operator++ (int) { wrap_iter t (*this); ++p; return t; }
  friend bool operator== (const wrap_iter& a, const wrap_iter& b) { return a.p == b.p; }
  friend bool operator!= (const wrap_iter& a, const wrap_iter& b) { return a.p != b.p; }
};

template <class To, class From>
static bool
same (const To& stored, const From& src)
{
  return stored == static_cast<To> (src);
}

template <class To, unsigned N, class It, class From>
static void
run_ops (It first, It last, const buf<From>& src, const char *name, const char *itname)
{
  typedef gch::small_vector<To, N> V;
  const std::size_t n = src.size ();
  const char *failed = 0;
  {
    V v (first, last);
    ++cases;
    bool ok = v.size () == n;
    for (std::size_t i = 0; ok && i < n; ++i)
      ok = same<To> (v[i], src[i]);
    if (! ok) failed = "constructor";
  }
  {
    V v (3, To ());
    v.assign (first, last);
    ++cases;
    bool ok = v.size () == n;
    for (std::size_t i = 0; ok && i < n; ++i)
      ok = same<To> (v[i], src[i]);
    if (! ok) failed = "assign";
  }
  {
    V v (2, To ());
    v.append (first, last);
    ++cases;
    bool ok = v.size () == n + 2;
    for (std::size_t i = 0; ok && i < n; ++i)
      ok = same<To> (v[i + 2], src[i]);
    if (! ok) failed = "append";
  }
  for (unsigned pos = 0; pos <= 3; ++pos)
    for (unsigned reserve = 0; reserve < 2; ++reserve)
    {
      V v (3, To ());
      if (reserve)
        v.reserve (static_cast<typename V::size_type> (3 + n + 4));
      v.insert (v.begin () + pos, first, last);
      ++cases;
      bool ok = v.size () == n + 3;
      for (std::size_t i = 0; ok && i < n; ++i)
        ok = same<To> (v[i + pos], src[i]);
      for (std::size_t i = 0; ok && i < 3; ++i)
        ok = v[i < pos ? i : i + n] == To ();
      if (! ok) failed = "insert";
    }
  if (failed)
  {
    ++failures;
    std::printf ("CONVFAIL %s N=%u iterator=%s op=%s\n", name, N, itname, failed);
  }
}

template <class To, class From>
static void
pair_with (const buf<From>& src, const char *name)
{
  const From *b = src.data ();
  const From *e = src.data () + src.size ();
  run_ops<To, 0> (b, e, src, name, "pointer");
  run_ops<To, 4> (b, e, src, name, "pointer");
  run_ops<To, 16> (b, e, src, name, "pointer");
  typedef wrap_iter<From, std::forward_iterator_tag> F;
  run_ops<To, 0> (F (b), F (e), src, name, "forward");
  run_ops<To, 4> (F (b), F (e), src, name, "forward");
  typedef wrap_iter<From, std::input_iterator_tag> I;
  run_ops<To, 0> (I (b), I (e), src, name, "input");
  run_ops<To, 4> (I (b), I (e), src, name, "input");
  std_vector_source<To> (src, name, std::is_same<From, bool> ());
  gch::small_vector<From, 2> sv (b, e);
  run_ops<To, 4> (sv.cbegin (), sv.cend (), src, name, "small_vector::const_iterator");
  run_ops<To, 0> (sv.begin (), sv.end (), src, name, "small_vector::iterator");
}

template <class From>
static buf<From>
int_samples (void)
{
  buf<From> v;
  const long long picks[] = { 0, 1, 2, -1, -2, 127, 128, 255, 256, 32767, 32768, 65535, 65536,
                              2147483647LL, 2147483648LL, 4294967295LL, -128, -129, -32768,
                              -2147483647LL - 1 };
  for (unsigned i = 0; i < sizeof (picks) / sizeof (picks[0]); ++i)
    v.push_back (static_cast<From> (picks[i]));
  v.push_back ((std::numeric_limits<From>::max) ());
  v.push_back ((std::numeric_limits<From>::min) ());
  return v;
}

template <class To, class From>
static void
int_pair (const char *name)
{
  pair_with<To, From> (int_samples<From> (), name);
}

#define IP(To, From) int_pair<To, From> (#From " -> " #To);

enum small_enum : unsigned char { SE_A = 0, SE_B = 7, SE_C = 255 };
enum wide_enum : int { WE_A = -5, WE_B = 0, WE_C = 70000 };
enum plain_enum { PE_A, PE_B = 40000 };

struct base1 { int a; virtual ~base1 (void) { } };
struct base2 { int b; virtual ~base2 (void) { } };
struct derived : base1, base2 { int c; };
struct npbase { int x; };
struct pderived : npbase { virtual ~pderived (void) { } int y; };

int
main (void)
{
  // integral pairs: equal and different width and signedness
  IP (int, int) IP (unsigned, int) IP (int, unsigned) IP (long long, int) IP (int, long long)
  IP (short, int) IP (int, short) IP (unsigned short, short) IP (short, unsigned short)
  IP (signed char, unsigned char) IP (unsigned char, signed char) IP (unsigned char, int)
  IP (int, unsigned char) IP (long, long long) IP (unsigned long long, long long)
  IP (long long, unsigned long long) IP (unsigned long, long) IP (std::int64_t, std::int32_t)
  IP (std::uint8_t, std::uint16_t) IP (std::uint16_t, std::uint8_t) IP (std::uint32_t, std::int8_t)
  // char kinds
  IP (char, signed char) IP (char, unsigned char) IP (signed char, char) IP (unsigned char, char)
  IP (wchar_t, char) IP (char16_t, unsigned short) IP (unsigned short, char16_t)
  IP (char32_t, unsigned) IP (unsigned, char32_t) IP (int, wchar_t) IP (wchar_t, int)
  // bool
  IP (bool, int) IP (bool, unsigned char) IP (bool, signed char) IP (int, bool)
  IP (unsigned char, bool) IP (bool, bool) IP (char, bool) IP (bool, long long)
  // floating point <-> integral (in-range values only) and float <-> double
  {
    buf<int> s; s.push_back (0); s.push_back (1); s.push_back (-7); s.push_back (1 << 20);
    pair_with<float, int> (s, "int -> float");
    pair_with<double, int> (s, "int -> double");
    buf<float> f; f.push_back (0.f); f.push_back (1.5f); f.push_back (-2.75f); f.push_back (1e6f);
    pair_with<int, float> (f, "float -> int");
    pair_with<double, float> (f, "float -> double");
    pair_with<long long, float> (f, "float -> long long");
    buf<double> d; d.push_back (0.); d.push_back (0.1); d.push_back (-3.9); d.push_back (65536.7);
    pair_with<float, double> (d, "double -> float");
    pair_with<int, double> (d, "double -> int");
    pair_with<unsigned short, double> (d, "double -> unsigned short (non-negative)"), (void) 0;
  }
  // enums (unscoped enums convert implicitly to integral types)
  {
    buf<small_enum> s; s.push_back (SE_A); s.push_back (SE_B); s.push_back (SE_C);
    pair_with<unsigned char, small_enum> (s, "enum:uchar -> unsigned char");
    pair_with<signed char, small_enum> (s, "enum:uchar -> signed char");
    pair_with<int, small_enum> (s, "enum:uchar -> int");
    pair_with<small_enum, small_enum> (s, "enum:uchar -> enum:uchar");
    pair_with<bool, small_enum> (s, "enum:uchar -> bool");
    buf<wide_enum> w; w.push_back (WE_A); w.push_back (WE_B); w.push_back (WE_C);
    pair_with<int, wide_enum> (w, "enum:int -> int");
    pair_with<unsigned, wide_enum> (w, "enum:int -> unsigned");
    pair_with<short, wide_enum> (w, "enum:int -> short");
    pair_with<long long, wide_enum> (w, "enum:int -> long long");
    buf<plain_enum> p; p.push_back (PE_A); p.push_back (PE_B);
    pair_with<unsigned, plain_enum> (p, "enum -> unsigned");
    pair_with<int, plain_enum> (p, "enum -> int");
    pair_with<unsigned short, plain_enum> (p, "enum -> unsigned short");
  }
  // pointers: same type, cv-added, void*, derived -> first base, derived -> second base,
  // polymorphic derived -> non-polymorphic base (non-zero offset to the *first* base)
  {
    static derived objs[4];
    buf<derived *> s;
    for (int i = 0; i < 4; ++i) s.push_back (&objs[i]);
    s.push_back (static_cast<derived *> (0));
    pair_with<derived *, derived *> (s, "derived* -> derived*");
    pair_with<const derived *, derived *> (s, "derived* -> const derived*");
    pair_with<void *, derived *> (s, "derived* -> void*");
    pair_with<const void *, derived *> (s, "derived* -> const void*");
    pair_with<base1 *, derived *> (s, "derived* -> first base*");
    pair_with<base2 *, derived *> (s, "derived* -> second base* (offset adjustment)");
    pair_with<const base2 *, derived *> (s, "derived* -> const second base*");
    static pderived pobjs[3];
    buf<pderived *> ps;
    for (int i = 0; i < 3; ++i) ps.push_back (&pobjs[i]);
    pair_with<npbase *, pderived *> (ps, "polymorphic derived* -> non-polymorphic base*");
    buf<int *> ip; static int ints[3]; ip.push_back (ints); ip.push_back (ints + 1); ip.push_back (0);
    pair_with<const int *, int *> (ip, "int* -> const int*");
    pair_with<const volatile void *, int *> (ip, "int* -> const volatile void*");
  }
  std::printf ("CONV cases=%lu failures=%lu\n", cases, failures);
  return failures ? 1 : 0;
}

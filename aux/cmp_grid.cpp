// C16 (exhaustive part): all pairs of contents over the alphabet {0,1,2} up to length 4
// (121 x 121 pairs) x 9 pairs of inline capacities x 2 element types (with and without
// operator<=>): every comparison operator against std::vector, mutual consistency, and the
// non-member erase / erase_if / swap / accessor functions. Enumeration, no fault dimension.
#include <gch/small_vector.hpp>

#include <algorithm>
#include <cstdio>
#include <limits>
#include <vector>

static unsigned long cases = 0, failures = 0;

struct plain // only == and <  (pre-C++20 operator set; in C++20 the header synthesises <=>)
{
  int v;
  plain (void) : v (0) { }
  plain (int x) : v (x) { }
  friend bool operator== (const plain& a, const plain& b) { return a.v == b.v; }
  friend bool operator< (const plain& a, const plain& b) { return a.v < b.v; }
};

static int value_of (int x) { return x; }
static int value_of (const plain& x) { return x.v; }

static void
fail (const char *what, const char *type, unsigned n, unsigned m, unsigned long i, unsigned long j)
{
  ++failures;
  if (failures <= 20)
    std::printf ("CMPFAIL %s T=%s N=%u M=%u lhs#%lu rhs#%lu\n", what, type, n, m, i, j);
}

static std::vector<std::vector<int> >
all_contents (void)
{
  std::vector<std::vector<int> > out;
  out.push_back (std::vector<int> ());
  for (unsigned len = 1; len <= 4; ++len)
  {
    unsigned total = 1;
    for (unsigned k = 0; k < len; ++k)
      total *= 3;
    for (unsigned code = 0; code < total; ++code)
    {
      std::vector<int> v;
      unsigned c = code;
      for (unsigned k = 0; k < len; ++k)
      {
        v.push_back (static_cast<int> (c % 3));
        c /= 3;
      }
      out.push_back (v);
    }
  }
  return out;
}

template <class T, unsigned N, unsigned M>
static void
compare_all (const char *type, const std::vector<std::vector<int> >& cs)
{
  typedef gch::small_vector<T, N> A;
  typedef gch::small_vector<T, M> Bv;
  for (unsigned long i = 0; i < cs.size (); ++i)
  {
    A a (cs[i].begin (), cs[i].end ());
    // make some of the left operands heap-allocated with spare capacity
    if (i % 3 == 1)
      a.reserve (static_cast<typename A::size_type> (N + 7));
    std::vector<T> ma (cs[i].begin (), cs[i].end ());
    for (unsigned long j = 0; j < cs.size (); ++j)
    {
      Bv b (cs[j].begin (), cs[j].end ());
      if (j % 4 == 2)
        b.reserve (static_cast<typename Bv::size_type> (M + 5));
      std::vector<T> mb (cs[j].begin (), cs[j].end ());
      ++cases;
      const bool eq = a == b, ne = a != b, lt = a < b, le = a <= b, gt = a > b, ge = a >= b;
      const bool meq = ma == mb, mlt = ma < mb, mgt = mb < ma;
      if (eq != meq || ne != ! meq)
        fail ("==/!=", type, N, M, i, j);
      if (lt != mlt || gt != mgt || le != ! mgt || ge != ! mlt)
        fail ("relational", type, N, M, i, j);
      if ((eq + lt + gt) != 1 || le != (lt || eq) || ge != (gt || eq) || ne == eq)
        fail ("consistency", type, N, M, i, j);
#if defined (__cpp_impl_three_way_comparison) && __cpp_impl_three_way_comparison >= 201907L
      const auto c = a <=> b;
      if ((c < 0) != mlt || (c > 0) != mgt || (c == 0) != meq)
        fail ("<=>", type, N, M, i, j);
#endif
    }
  }
}

template <class T, unsigned N>
static void
non_members (const char *type, const std::vector<std::vector<int> >& cs)
{
  typedef gch::small_vector<T, N> V;
  for (unsigned long i = 0; i < cs.size (); ++i)
    for (int x = 0; x < 3; ++x)
    {
      V v (cs[i].begin (), cs[i].end ());
      std::vector<T> m (cs[i].begin (), cs[i].end ());
      ++cases;
      const typename V::size_type r = erase (v, T (x));
      const std::size_t before = m.size ();
      m.erase (std::remove (m.begin (), m.end (), T (x)), m.end ());
      bool ok = r == before - m.size () && v.size () == m.size ();
      for (std::size_t k = 0; ok && k < m.size (); ++k)
        ok = value_of (v[k]) == value_of (m[k]);
      if (! ok)
        fail ("erase(v, value)", type, N, 0, i, static_cast<unsigned long> (x));

      V w (cs[i].begin (), cs[i].end ());
      std::vector<T> mw (cs[i].begin (), cs[i].end ());
      ++cases;
      struct pred { int x; bool operator() (const T& e) const { return value_of (e) != x; } } p = { x };
      const typename V::size_type r2 = erase_if (w, p);
      const std::size_t before2 = mw.size ();
      mw.erase (std::remove_if (mw.begin (), mw.end (), p), mw.end ());
      ok = r2 == before2 - mw.size () && w.size () == mw.size ();
      for (std::size_t k = 0; ok && k < mw.size (); ++k)
        ok = value_of (w[k]) == value_of (mw[k]);
      if (! ok)
        fail ("erase_if(v, pred)", type, N, 0, i, static_cast<unsigned long> (x));

      // accessors and swap
      V s1 (cs[i].begin (), cs[i].end ());
      V s2 (cs[(i * 7 + 3) % cs.size ()].begin (), cs[(i * 7 + 3) % cs.size ()].end ());
      const V& c1 = s1;
      ++cases;
      ok = begin (s1) == s1.begin () && end (s1) == s1.end () && begin (c1) == c1.begin ()
        && end (c1) == c1.end () && cbegin (c1) == c1.cbegin () && cend (c1) == c1.cend ()
        && rbegin (s1) == s1.rbegin () && rend (s1) == s1.rend () && crbegin (c1) == c1.crbegin ()
        && crend (c1) == c1.crend () && size (s1) == s1.size () && empty (s1) == s1.empty ()
        && static_cast<std::size_t> (ssize (s1)) == s1.size () && data (s1) == s1.data ()
        && data (c1) == c1.data ();
      if (! ok)
        fail ("non-member accessors", type, N, 0, i, 0);
      std::vector<T> m1 (s1.begin (), s1.end ()), m2 (s2.begin (), s2.end ());
      using std::swap;
      swap (s1, s2);
      ok = s1.size () == m2.size () && s2.size () == m1.size ();
      for (std::size_t k = 0; ok && k < m2.size (); ++k)
        ok = value_of (s1[k]) == value_of (m2[k]);
      for (std::size_t k = 0; ok && k < m1.size (); ++k)
        ok = value_of (s2[k]) == value_of (m1[k]);
      if (! ok)
        fail ("non-member swap", type, N, 0, i, 0);
    }
}

template <class T>
static void
for_type (const char *type, const std::vector<std::vector<int> >& cs)
{
  compare_all<T, 0, 0> (type, cs); compare_all<T, 0, 2> (type, cs); compare_all<T, 0, 5> (type, cs);
  compare_all<T, 2, 0> (type, cs); compare_all<T, 2, 2> (type, cs); compare_all<T, 2, 5> (type, cs);
  compare_all<T, 5, 0> (type, cs); compare_all<T, 5, 2> (type, cs); compare_all<T, 5, 5> (type, cs);
  non_members<T, 0> (type, cs); non_members<T, 2> (type, cs); non_members<T, 5> (type, cs);
}

// Comparing an object with itself (or through an alias) must still go through the elements'
// operator==: for element types whose equality is not reflexive (NaN) std::vector<T> says
// v != v, and so must small_vector.
template <unsigned N>
static void
self_comparison (void)
{
  const double nan = std::numeric_limits<double>::quiet_NaN ();
  const double sets[4][3] = { { 1.0, 2.0, 3.0 }, { 1.0, nan, 3.0 }, { nan, nan, nan }, { 0.0, -0.0, 1.0 } };
  for (unsigned k = 0; k < 4; ++k)
    for (unsigned len = 0; len <= 3; ++len)
    {
      gch::small_vector<double, N> v (sets[k], sets[k] + len);
      std::vector<double> m (sets[k], sets[k] + len);
      const gch::small_vector<double, N>& alias = v;
      const std::vector<double>& malias = m;
      ++cases;
      if ((v == v) != (m == m) || (v != v) != (m != m) || (v == alias) != (m == malias)
          || (v < v) != (m < m) || (v <= v) != (m <= m) || (v > alias) != (m > malias)
          || (v >= v) != (m >= m))
        fail ("self comparison (non-reflexive ==)", "double", N, N, k, len);
      gch::small_vector<double, N> w (v);
      ++cases;
      if ((v == w) != (m == m) || (v != w) != (m != m))
        fail ("comparison with an equal copy (non-reflexive ==)", "double", N, N, k, len);
    }
}

// Non-member erase compares each element with the caller's value of ITS OWN type (std::erase
// semantics): a value that would change when converted to the element type must match nothing.
struct by_id
{
  int id;
  int payload;
  friend bool operator== (const by_id& a, const by_id& b) { return a.id == b.id && a.payload == b.payload; }
  friend bool operator== (const by_id& a, int key) { return a.id == key; }
};

template <class T, class U, unsigned N>
static void
hetero_erase_case (const T *vals, unsigned n, const U& value, const char *what)
{
  gch::small_vector<T, N> v (vals, vals + n);
  std::vector<T> m (vals, vals + n);
  const std::size_t r = erase (v, value);
  std::size_t removed = 0;
  for (typename std::vector<T>::iterator it = m.begin (); it != m.end ();)
    if (*it == value) { it = m.erase (it); ++removed; } else ++it;
  ++cases;
  bool ok = r == removed && v.size () == m.size ();
  for (std::size_t i = 0; ok && i < m.size (); ++i)
    ok = v[i] == m[i];
  if (! ok)
    fail (what, "heterogeneous erase", N, 0, static_cast<unsigned long> (r), static_cast<unsigned long> (removed));
}

template <unsigned N>
static void
hetero_erase (void)
{
  const unsigned char uc[] = { 44, 1, 44, 200, 255, 0 };
  hetero_erase_case<unsigned char, int, N> (uc, 6, 300, "erase(sv<unsigned char>, 300)");
  hetero_erase_case<unsigned char, int, N> (uc, 6, 44, "erase(sv<unsigned char>, 44)");
  hetero_erase_case<unsigned char, int, N> (uc, 6, -56, "erase(sv<unsigned char>, -56)");
  const signed char sc[] = { -56, 3, -56, 100 };
  hetero_erase_case<signed char, int, N> (sc, 4, 200, "erase(sv<signed char>, 200)");
  const int in[] = { 2, 3, 2, 7 };
  hetero_erase_case<int, double, N> (in, 4, 2.5, "erase(sv<int>, 2.5)");
  hetero_erase_case<int, double, N> (in, 4, 2.0, "erase(sv<int>, 2.0)");
  hetero_erase_case<int, long long, N> (in, 4, (1ll << 32) + 2, "erase(sv<int>, 2^32+2)");
  const float fl[] = { 0.1f, 0.5f, 0.1f };
  hetero_erase_case<float, double, N> (fl, 3, 0.1, "erase(sv<float>, 0.1)");
  hetero_erase_case<float, double, N> (fl, 3, 0.5, "erase(sv<float>, 0.5)");
  const by_id ids[] = { { 1, 10 }, { 2, 20 }, { 1, 30 }, { 3, 40 } };
  hetero_erase_case<by_id, int, N> (ids, 4, 1, "erase(sv<by_id>, key)");
}

int
main (void)
{
  hetero_erase<0> (); hetero_erase<2> (); hetero_erase<8> ();
  self_comparison<0> (); self_comparison<2> (); self_comparison<5> ();
  const std::vector<std::vector<int> > cs = all_contents ();
  for_type<int> ("int", cs);
  for_type<plain> ("plain(==,<)", cs);
  std::printf ("CMP cases=%lu failures=%lu contents=%lu\n", cases, failures,
               static_cast<unsigned long> (cs.size ()));
  return failures ? 1 : 0;
}

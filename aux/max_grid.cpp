// C12 (exhaustive part): 8-bit size_type. Every growing operation x every start size in
// [0, max_size()] x every count / range length in [0, max_size()+3] and {254..258, 300}.
// An operation whose resulting size exceeds max_size() must throw std::length_error, leave the
// container unchanged (contents always; capacity()/data() for operations that know their count
// up front) and never ask the allocator for more than max_size() elements; otherwise it must
// succeed with the right contents. Enumeration, labelled as such in the evidence.
#include <gch/small_vector.hpp>

#include <cstdint>
#include <cstdio>
#include <cstring>
#include <iterator>
#include <stdexcept>
#include <limits>
#include <memory>
#include <vector>

static unsigned long cases = 0, failures = 0;
static std::size_t g_max_alloc_n = 0;
static unsigned long g_allocs = 0;

template <class T>
struct u8_alloc
{
  typedef T            value_type;
  typedef std::uint8_t size_type;
  template <class U> struct rebind { typedef u8_alloc<U> other; };
  u8_alloc (void) noexcept { }
  template <class U> u8_alloc (const u8_alloc<U>&) noexcept { }
  T *
  allocate (size_type n)
  {
    ++g_allocs;
    if (n > g_max_alloc_n)
      g_max_alloc_n = n;
    // canaries on both sides
    unsigned char *raw = static_cast<unsigned char *> (::operator new (n * sizeof (T) + 64));
    std::memset (raw, 0xA5, 32);
    std::memset (raw + 32 + n * sizeof (T), 0xA5, 32);
    return reinterpret_cast<T *> (raw + 32);
  }
  void
  deallocate (T *p, size_type n) noexcept
  {
    unsigned char *raw = reinterpret_cast<unsigned char *> (p) - 32;
    for (int i = 0; i < 32; ++i)
      if (raw[i] != 0xA5 || raw[32 + n * sizeof (T) + i] != 0xA5)
      {
        ++failures;
        std::printf ("MAXFAIL redzone smashed (n=%u)\n", static_cast<unsigned> (n));
        break;
      }
    ::operator delete (raw);
  }
};
template <class T, class U> bool operator== (const u8_alloc<T>&, const u8_alloc<U>&) noexcept { return true; }
template <class T, class U> bool operator!= (const u8_alloc<T>&, const u8_alloc<U>&) noexcept { return false; }

// an allocator whose difference_type is NARROWER than its size_type: every iterator difference and
// subscript goes through difference_type, so max_size() must not exceed its maximum (127 here)
template <class T>
struct narrow_diff_alloc : u8_alloc<T>
{
  typedef std::uint16_t size_type;
  typedef std::int8_t   difference_type;
  template <class U> struct rebind { typedef narrow_diff_alloc<U> other; };
  narrow_diff_alloc (void) noexcept { }
  template <class U> narrow_diff_alloc (const narrow_diff_alloc<U>&) noexcept { }
  T *allocate (size_type n) { return u8_alloc<T>::allocate (static_cast<std::uint8_t> (n)); }
  void deallocate (T *p, size_type n) noexcept { u8_alloc<T>::deallocate (p, static_cast<std::uint8_t> (n)); }
};
template <class T, class U> bool operator== (const narrow_diff_alloc<T>&, const narrow_diff_alloc<U>&) noexcept { return true; }
template <class T, class U> bool operator!= (const narrow_diff_alloc<T>&, const narrow_diff_alloc<U>&) noexcept { return false; }

struct e4 // non-trivial, 4 bytes: max_size() == 63
{
  int v;
  e4 (void) : v (0) { }
  e4 (int x) : v (x) { }
  e4 (const e4& o) : v (o.v) { }
  e4& operator= (const e4& o) { v = o.v; return *this; }
  ~e4 (void) { v = -1; }
};
static int value_of (const e4& e) { return e.v; }
static int value_of (unsigned char e) { return e; }

template <class V, class Cat>
struct wrap_iter
{
  typedef Cat            iterator_category;
  typedef V              value_type;
  typedef std::ptrdiff_t difference_type;
  typedef const V       *pointer;
  typedef const V&       reference;
  const V *p;
  wrap_iter (void) : p (0) { }
  explicit wrap_iter (const V *p_) : p (p_) { }
  reference operator* (void) const { return *p; }
  wrap_iter& operator++ (void) { ++p; return *this; }
  wrap_iter operator++ (int) { wrap_iter t (*this); ++p; return t; }
  friend bool operator== (const wrap_iter& a, const wrap_iter& b) { return a.p == b.p; }
  friend bool operator!= (const wrap_iter& a, const wrap_iter& b) { return a.p != b.p; }
};

enum opk
{
  O_PUSH_BACK, O_EMPLACE_BACK, O_INSERT_N_BEGIN, O_INSERT_N_MID, O_INSERT_N_END, O_INSERT_FWD_MID,
  O_INSERT_PTR_END, O_INSERT_INPUT_MID, O_INSERT_INPUT_END, O_APPEND_FWD, O_APPEND_PTR,
  O_APPEND_INPUT, O_RESIZE, O_RESIZE_VAL, O_RESERVE, O_ASSIGN_N, O_ASSIGN_FWD, O_ASSIGN_PTR,
  O_ASSIGN_INPUT, O_CTOR_N, O_CTOR_N_VAL, O_CTOR_FWD, O_CTOR_PTR, O_CTOR_INPUT, O_NOPS
};

static const char *const op_names[] = {
  "push_back", "emplace_back", "insert(begin,n,v)", "insert(mid,n,v)", "insert(end,n,v)",
  "insert(mid,forward)", "insert(end,pointer)", "insert(mid,input)", "insert(end,input)",
  "append(forward)", "append(pointer)", "append(input)", "resize(n)", "resize(n,v)", "reserve(n)",
  "assign(n,v)", "assign(forward)", "assign(pointer)", "assign(input)", "ctor(n)", "ctor(n,v)",
  "ctor(forward)", "ctor(pointer)", "ctor(input)" };

static bool op_takes_range (int o)
{
  return o == O_INSERT_FWD_MID || o == O_INSERT_PTR_END || o == O_INSERT_INPUT_MID
      || o == O_INSERT_INPUT_END || o == O_APPEND_FWD || o == O_APPEND_PTR || o == O_APPEND_INPUT
      || o == O_ASSIGN_FWD || o == O_ASSIGN_PTR || o == O_ASSIGN_INPUT || o == O_CTOR_FWD
      || o == O_CTOR_PTR || o == O_CTOR_INPUT;
}

// listed known finding: a single-pass assign cannot be measured before it is consumed
static bool op_is_known_unsized_assign (int o) { return o == O_ASSIGN_INPUT; }

static bool op_knows_count (int o)
{
  return ! (o == O_INSERT_INPUT_MID || o == O_INSERT_INPUT_END || o == O_APPEND_INPUT
            || o == O_ASSIGN_INPUT || o == O_CTOR_INPUT);
}

template <class T, unsigned N, class A>
static void
grid (const char *tname);

template <class T, unsigned N>
static void
grid (const char *tname)
{
  grid<T, N, u8_alloc<T> > (tname);
}

template <class T, unsigned N, class A>
static void
grid (const char *tname)
{
  typedef gch::small_vector<T, N, A> V;
  {
    // max_size() is bounded by the allocator's difference_type, and at that size the iterator
    // arithmetic still agrees with size()
    typedef typename std::allocator_traits<A>::difference_type adiff;
    V full;
    const std::size_t m = full.max_size ();
    ++cases;
    if (m > static_cast<std::size_t> ((std::numeric_limits<adiff>::max) ())
        || m > static_cast<std::size_t> ((std::numeric_limits<typename V::difference_type>::max) ()))
    {
      ++failures;
      std::printf ("MAXFAIL max_size T=%s N=%u max_size=%lu exceeds the maximum of difference_type\n",
                   tname, N, static_cast<unsigned long> (m));
      std::fflush (stdout);
      return; // the grid below would index past what this allocator can address
    }
    else
    {
      full.resize (static_cast<typename V::size_type> (m));
      ++cases;
      if (static_cast<std::size_t> (full.end () - full.begin ()) != m
          || static_cast<std::size_t> (full.cend () - full.cbegin ()) != m
          || (m != 0 && &full[static_cast<typename V::size_type> (m - 1)] != full.data () + (m - 1)))
      {
        ++failures;
        std::printf ("MAXFAIL full container T=%s N=%u max_size=%lu: end()-begin() or &v[size-1] wrong\n",
                     tname, N, static_cast<unsigned long> (m));
      }
    }
  }
  typedef wrap_iter<T, std::forward_iterator_tag> F;
  typedef wrap_iter<T, std::input_iterator_tag> I;
  const std::size_t mx = V ().max_size ();
  std::vector<T> src;
  for (int i = 0; i < 320; ++i)
    src.push_back (T (100 + i % 50));
  std::vector<std::size_t> counts;
  for (std::size_t c = 0; c <= mx + 3; ++c)
    counts.push_back (c);
  const std::size_t extra[] = { 254, 255, 256, 257, 258, 300 };
  for (unsigned i = 0; i < 6; ++i)
    counts.push_back (extra[i]);
  for (int o = 0; o < O_NOPS; ++o)
    for (std::size_t s = 0; s <= mx; ++s)
      for (std::size_t ci = 0; ci < counts.size (); ++ci)
      {
        std::size_t c = counts[ci];
        const bool range = op_takes_range (o);
        if (! range && c > 255)
          continue; // a count argument is a size_type: it cannot exceed 255 at the call site
        if ((o == O_PUSH_BACK || o == O_EMPLACE_BACK) && ci != 1)
          continue;
        if (o >= O_CTOR_N && s != 0)
          continue;
        V v;
        for (std::size_t k = 0; k < s; ++k)
          v.push_back (T (static_cast<int> (k % 90)));
        std::vector<int> before;
        for (std::size_t k = 0; k < s; ++k)
          before.push_back (value_of (v[static_cast<typename V::size_type> (k)]));
        const std::size_t cap0 = v.capacity ();
        const void *data0 = v.data ();
        g_max_alloc_n = 0;
        const std::size_t mid = s / 2;
        std::size_t expect_size = s + c;
        if (o == O_RESIZE || o == O_RESIZE_VAL || o == O_ASSIGN_N || o == O_ASSIGN_FWD
            || o == O_ASSIGN_PTR || o == O_ASSIGN_INPUT || o >= O_CTOR_N)
          expect_size = c;
        if (o == O_RESERVE)
          expect_size = s;
        const bool over = (o == O_RESERVE) ? c > mx : expect_size > mx;
        bool threw_len = false, threw_other = false;
        const T *b = src.data ();
        typedef typename V::size_type st;
        std::size_t built_size = 0;
        try
        {
          switch (o)
          {
            case O_PUSH_BACK:        v.push_back (T (7)); break;
            case O_EMPLACE_BACK:     v.emplace_back (7); break;
            case O_INSERT_N_BEGIN:   v.insert (v.begin (), static_cast<st> (c), T (7)); break;
            case O_INSERT_N_MID:     v.insert (v.begin () + mid, static_cast<st> (c), T (7)); break;
            case O_INSERT_N_END:     v.insert (v.end (), static_cast<st> (c), T (7)); break;
            case O_INSERT_FWD_MID:   v.insert (v.begin () + mid, F (b), F (b + c)); break;
            case O_INSERT_PTR_END:   v.insert (v.end (), b, b + c); break;
            case O_INSERT_INPUT_MID: v.insert (v.begin () + mid, I (b), I (b + c)); break;
            case O_INSERT_INPUT_END: v.insert (v.end (), I (b), I (b + c)); break;
            case O_APPEND_FWD:       v.append (F (b), F (b + c)); break;
            case O_APPEND_PTR:       v.append (b, b + c); break;
            case O_APPEND_INPUT:     v.append (I (b), I (b + c)); break;
            case O_RESIZE:           v.resize (static_cast<st> (c)); break;
            case O_RESIZE_VAL:       v.resize (static_cast<st> (c), T (7)); break;
            case O_RESERVE:          v.reserve (static_cast<st> (c)); break;
            case O_ASSIGN_N:         v.assign (static_cast<st> (c), T (7)); break;
            case O_ASSIGN_FWD:       v.assign (F (b), F (b + c)); break;
            case O_ASSIGN_PTR:       v.assign (b, b + c); break;
            case O_ASSIGN_INPUT:     v.assign (I (b), I (b + c)); break;
            case O_CTOR_N:           { V w (static_cast<st> (c)); built_size = w.size (); } break;
            case O_CTOR_N_VAL:       { V w (static_cast<st> (c), T (7)); built_size = w.size (); } break;
            case O_CTOR_FWD:         { V w (F (b), F (b + c)); built_size = w.size (); } break;
            case O_CTOR_PTR:         { V w (b, b + c); built_size = w.size (); } break;
            default:                 { V w (I (b), I (b + c)); built_size = w.size (); } break;
          }
        }
        catch (const std::length_error&) { threw_len = true; }
        catch (...) { threw_other = true; }
        ++cases;
        const char *why = 0;
        if (threw_other)
          why = "unexpected exception type";
        else if (g_max_alloc_n > mx)
          why = "allocate() was asked for more than max_size() elements";
        else if (v.size () > mx)
          why = "size() exceeds max_size()";
        else if (over)
        {
          if (! threw_len)
            why = "no length_error although the result exceeds max_size()";
          else if (o < O_CTOR_N && ! op_is_known_unsized_assign (o))
          {
            bool same = v.size () == s;
            for (std::size_t k = 0; same && k < s; ++k)
              same = value_of (v[static_cast<st> (k)]) == before[k];
            if (! same)
              why = "length_error thrown but the contents changed";
            else if (op_knows_count (o) && (v.capacity () != cap0 || v.data () != data0))
              why = "length_error thrown but capacity()/data() changed";
          }
        }
        else
        {
          if (threw_len)
            why = "length_error although the result fits max_size()";
          else if (o >= O_CTOR_N ? built_size != expect_size : v.size () != expect_size)
            why = "wrong resulting size";
        }
        if (why)
        {
          ++failures;
          if (failures <= 25)
            std::printf ("MAXFAIL %s T=%s N=%u size=%lu count=%lu max_size=%lu: %s\n", op_names[o],
                         tname, N, static_cast<unsigned long> (s), static_cast<unsigned long> (c),
                         static_cast<unsigned long> (mx), why);
        }
      }
}

int
main (void)
{
  grid<e4, 0> ("e4"); grid<e4, 2> ("e4"); grid<e4, 5> ("e4");
  grid<unsigned char, 0> ("uchar"); grid<unsigned char, 3> ("uchar");
  grid<e4, 0, narrow_diff_alloc<e4> > ("e4, size_type u16 / difference_type i8");
  grid<e4, 4, narrow_diff_alloc<e4> > ("e4, size_type u16 / difference_type i8");
  grid<unsigned char, 3, narrow_diff_alloc<unsigned char> > ("uchar, size_type u16 / difference_type i8");
  std::printf ("MAX cases=%lu failures=%lu\n", cases, failures);
  return failures ? 1 : 0;
}

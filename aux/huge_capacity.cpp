// C09 / C12 (64-bit capacities): containers of 1-byte elements whose capacity is 2^32 (+k)
// elements, obtained from a lazily committed allocator (mmap MAP_NORESERVE; the pages are never
// touched). No 32-bit narrowing of a size or capacity may change a decision: moves and swaps
// must still steal, nothing may be copied into an inline buffer, capacity() and data() must be
// preserved. Enumeration over a handful of operations; no fault dimension.
#include <gch/small_vector.hpp>

#include <cstdint>
#include <cstdio>
#include <sys/mman.h>

static unsigned long cases = 0, failures = 0;

template <class T>
struct lazy_alloc
{
  typedef T value_type;
  typedef std::true_type is_always_equal;
  typedef std::true_type propagate_on_container_move_assignment;
  typedef std::true_type propagate_on_container_swap;
  lazy_alloc (void) noexcept { }
  template <class U> lazy_alloc (const lazy_alloc<U>&) noexcept { }
  T *
  allocate (std::size_t n)
  {
    void *p = mmap (0, n * sizeof (T) + 4096, PROT_READ | PROT_WRITE,
                    MAP_PRIVATE | MAP_ANONYMOUS | MAP_NORESERVE, -1, 0);
    if (p == MAP_FAILED)
      throw std::bad_alloc ();
    return static_cast<T *> (p);
  }
  void deallocate (T *p, std::size_t n) noexcept { munmap (p, n * sizeof (T) + 4096); }
};
template <class T, class U> bool operator== (const lazy_alloc<T>&, const lazy_alloc<U>&) noexcept { return true; }
template <class T, class U> bool operator!= (const lazy_alloc<T>&, const lazy_alloc<U>&) noexcept { return false; }

static void
expect (bool ok, const char *what, unsigned n, unsigned m, unsigned long long extra)
{
  ++cases;
  if (! ok)
  {
    ++failures;
    std::printf ("HUGEFAIL %s N=%u M=%u capacity=2^32+%llu\n", what, n, m, extra);
  }
}

template <unsigned N, unsigned M>
static void
run (unsigned long long extra, unsigned elems)
{
  typedef gch::small_vector<char, N, lazy_alloc<char> > S;
  typedef gch::small_vector<char, M, lazy_alloc<char> > D;
  const std::size_t want = (1ull << 32) + extra;
  {
    S src;
    src.reserve (want);
    for (unsigned i = 0; i < elems; ++i)
      src.push_back (static_cast<char> ('a' + i));
    const char *d0 = src.data ();
    const std::size_t c0 = src.capacity ();
    expect (c0 >= want && ! src.inlined (), "reserve(2^32+k)", N, M, extra);
    D dst (std::move (src));
    expect (dst.data () == d0 && dst.capacity () == c0 && dst.size () == elems && ! dst.inlined ()
            && src.empty () && src.inlined (), "move construction steals", N, M, extra);
    S back;
    back.push_back ('z');
    back.assign (std::move (dst));
    expect (back.data () == d0 && back.capacity () == c0 && back.size () == elems
            && dst.empty () && dst.inlined (), "move assignment steals", N, M, extra);
    for (unsigned i = 0; i < elems; ++i)
      expect (back[i] == static_cast<char> ('a' + i), "contents after two steals", N, M, extra);
    S other;
    other.push_back ('q');
    other.swap (back);
    expect (other.data () == d0 && other.capacity () == c0 && other.size () == elems
            && back.size () == 1 && back[0] == 'q', "swap exchanges the buffers", N, M, extra);
    other.reserve (c0);
    expect (other.data () == d0 && other.capacity () == c0, "reserve(capacity()) is a no-op", N, M, extra);
    other.push_back ('!');
    other.insert (other.begin (), '^');
    expect (other.data () == d0 && other.capacity () == c0 && other.size () == elems + 2
            && other.front () == '^' && other.back () == '!', "growth within the huge capacity", N, M, extra);
    S copy (other);
    expect (copy.size () == other.size () && copy.capacity () < (1ull << 32), "copy takes only what it needs", N, M, extra);
    other.shrink_to_fit ();
    expect (other.size () == elems + 2 && other.capacity () == (other.size () > N ? other.size () : N)
            && other.front () == '^' && other.back () == '!', "shrink_to_fit from 2^32", N, M, extra);
  }
}

int
main (void)
{
  const unsigned long long extras[] = { 0, 1, 5, 100 };
  for (unsigned e = 0; e < 4; ++e)
    for (unsigned elems = 1; elems <= 3; ++elems)
    {
      run<8, 8> (extras[e], elems);
      run<2, 8> (extras[e], elems);
      run<0, 1> (extras[e], elems);
      run<0, 0> (extras[e], elems);
      run<4, 4> (extras[e], elems);
    }
  std::printf ("HUGE cases=%lu failures=%lu\n", cases, failures);
  return failures ? 1 : 0;
}

// C18 (iterator part): small_vector's iterator and const_iterator are checked operator by
// operator against pointer arithmetic on data(), exhaustively for every pair of positions and
// every offset of short containers (inline and heap, three inline capacities, two element types):
// ++ / -- (prefix and postfix: value of the expression AND effect), += -= + - (both operand
// orders), difference, subscripting, * and ->, all six comparisons (and <=> where available) in
// the four iterator/const_iterator combinations, conversion iterator -> const_iterator, base(),
// reverse iterators built on them, and the traits (category, trivially copyable, contiguous).
#include <gch/small_vector.hpp>

#include <cstddef>
#include <cstdio>
#include <iterator>
#include <memory>
#include <string>
#include <type_traits>

static unsigned long cases = 0, failures = 0;

static void
fail (const char *what, const char *type, unsigned n, std::size_t size, long i, long j)
{
  ++failures;
  if (failures <= 20)
    std::printf ("ITERFAIL %s T=%s N=%u size=%lu i=%ld j=%ld\n", what, type, n,
                 static_cast<unsigned long> (size), i, j);
}

#define CHECK_IT(cond, what) do { ++cases; if (! (cond)) fail (what, type, N, size, i, j); } while (0)

template <class T> struct mk;
template <> struct mk<int> { static int at (int k) { return 100 + k; } static int key (int v) { return v; } };
template <> struct mk<std::string>
{
  static std::string at (int k) { return std::string (static_cast<std::size_t> (k % 5 + 1), static_cast<char> ('a' + k)); }
  static std::size_t key (const std::string& v) { return v.size () * 256 + static_cast<unsigned char> (v[0]); }
};

template <class It, class P>
static bool
at (const It& it, P base, long k)
{
  return it.base () == base + k;
}

template <class V, class It, class P>
static void
algebra (const char *type, unsigned N, std::size_t size, V& v, It first, P base, bool heap)
{
  (void) v; (void) heap;
  const long n = static_cast<long> (size);
  for (long i = 0; i <= n; ++i)
    for (long j = 0; j <= n; ++j)
    {
      const It a = first + i;
      const It b = first + j;
      CHECK_IT (at (a, base, i) && at (b, base, j), "it + n");
      CHECK_IT (at (i + first, base, i), "n + it");
      CHECK_IT ((b - a) == (j - i) && (a - b) == (i - j), "it - it");
      CHECK_IT (at (a + (j - i), base, j) && at (a - (i - j), base, j), "it +/- signed offset");
      { It t = a; It& r = (t += (j - i)); CHECK_IT (&r == &t && at (t, base, j), "it += n"); }
      { It t = a; It& r = (t -= (i - j)); CHECK_IT (&r == &t && at (t, base, j), "it -= n"); }
      CHECK_IT ((a == b) == (i == j) && (a != b) == (i != j), "== / !=");
      CHECK_IT ((a < b) == (i < j) && (a <= b) == (i <= j) && (a > b) == (i > j) && (a >= b) == (i >= j),
                "relational");
#if defined (__cpp_impl_three_way_comparison) && __cpp_impl_three_way_comparison >= 201907L
      CHECK_IT (((a <=> b) < 0) == (i < j) && ((a <=> b) > 0) == (i > j) && ((a <=> b) == 0) == (i == j), "<=>");
#endif
      if (j < n)
      {
        CHECK_IT (&first[j] == base + j, "it[n]");
        CHECK_IT (&a[j - i] == base + j, "it[n] from a");
        CHECK_IT (&*b == base + j && b.operator-> () == base + j, "* / ->");
      }
      if (i < n && j == 0)
      {
        { It t = a; It r = t++; CHECK_IT (at (r, base, i) && at (t, base, i + 1), "it++ (value and effect)"); }
        { It t = a; It& r = ++t; CHECK_IT (&r == &t && at (t, base, i + 1), "++it"); }
      }
      if (i > 0 && j == 0)
      {
        { It t = a; It r = t--; CHECK_IT (at (r, base, i) && at (t, base, i - 1), "it-- (value and effect)"); }
        { It t = a; It& r = --t; CHECK_IT (&r == &t && at (t, base, i - 1), "--it"); }
        { It t = a; CHECK_IT (&*--t == base + (i - 1), "*--it"); }
      }
      if (i > 1 && j == 0)
      {
        It t = a;
        --t;
        CHECK_IT (&*t-- == base + (i - 1) && at (t, base, i - 2), "*it--");
      }
      if (i < n && j == 0)
      {
        It t = a;
        CHECK_IT (&*t++ == base + i && at (t, base, i + 1), "*it++");
      }
      // reverse iterators built from them
      {
        std::reverse_iterator<It> ra (a), rb (b);
        CHECK_IT ((rb - ra) == (i - j) && (ra < rb) == (i > j), "reverse_iterator difference / order");
        if (i > 0)
          CHECK_IT (&*ra == base + (i - 1), "*reverse_iterator");
      }
    }
}

template <class T, unsigned N>
static void
run (const char *type)
{
  typedef gch::small_vector<T, N> V;
  typedef typename V::iterator I;
  typedef typename V::const_iterator CI;

  static_assert (std::is_trivially_copyable<I>::value && std::is_trivially_copyable<CI>::value,
                 "iterators are trivially copyable");
  static_assert (std::is_same<typename std::iterator_traits<I>::iterator_category,
                              std::random_access_iterator_tag>::value
                 || std::is_base_of<std::random_access_iterator_tag,
                                    typename std::iterator_traits<I>::iterator_category>::value,
                 "random access");
  static_assert (std::is_same<typename std::iterator_traits<I>::value_type, T>::value
                 && std::is_same<typename std::iterator_traits<CI>::value_type, T>::value
                 && std::is_same<typename std::iterator_traits<I>::reference, T&>::value
                 && std::is_same<typename std::iterator_traits<CI>::reference, const T&>::value
                 && std::is_same<typename std::iterator_traits<I>::pointer, T *>::value
                 && std::is_same<typename std::iterator_traits<CI>::pointer, const T *>::value
                 && std::is_same<typename std::iterator_traits<I>::difference_type,
                                 typename V::difference_type>::value,
                 "iterator_traits");
  static_assert (std::is_convertible<I, CI>::value && ! std::is_convertible<CI, I>::value,
                 "iterator converts to const_iterator only");
  static_assert (std::is_default_constructible<I>::value && std::is_default_constructible<CI>::value,
                 "default constructible");
#if defined (__cpp_lib_concepts) && __cpp_lib_concepts >= 201907L
  static_assert (std::contiguous_iterator<I> && std::contiguous_iterator<CI>, "contiguous_iterator");
#endif

  for (std::size_t size = 0; size <= 6; ++size)
    for (int heap = 0; heap < 2; ++heap)
    {
      V v;
      if (heap)
        v.reserve (N + 9);
      for (std::size_t k = 0; k < size; ++k)
        v.push_back (mk<T>::at (static_cast<int> (k)));
      const V& cv = v;
      algebra (type, N, size, v, v.begin (), v.data (), heap != 0);
      algebra (type, N, size, v, cv.begin (), cv.data (), heap != 0);
      algebra (type, N, size, v, v.cbegin (), cv.data (), heap != 0);
      // mixed iterator / const_iterator
      const long n = static_cast<long> (size);
      for (long i = 0; i <= n; ++i)
        for (long j = 0; j <= n; ++j)
        {
          const I a = v.begin () + i;
          const CI b = cv.begin () + j;
          const CI ac = a; // conversion
          CHECK_IT (ac.base () == cv.data () + i, "iterator -> const_iterator");
          CHECK_IT ((a == b) == (i == j) && (b == a) == (i == j) && (a != b) == (i != j) && (b != a) == (i != j),
                    "mixed == / !=");
          CHECK_IT ((a < b) == (i < j) && (b < a) == (j < i) && (a <= b) == (i <= j) && (b <= a) == (j <= i)
                    && (a > b) == (i > j) && (b > a) == (j > i) && (a >= b) == (i >= j) && (b >= a) == (j >= i),
                    "mixed relational");
          CHECK_IT ((b - a) == (j - i) && (a - b) == (i - j), "mixed difference");
        }
      // end(), rbegin(), rend() families
      {
        const long i = 0, j = 0;
        CHECK_IT (v.end ().base () == v.data () + size && cv.end ().base () == cv.data () + size
                  && v.cend ().base () == cv.data () + size, "end()");
        CHECK_IT (v.rbegin ().base () == v.end () && v.rend ().base () == v.begin ()
                  && cv.rbegin ().base () == cv.end () && v.crend ().base () == v.cbegin (), "reverse families");
        std::size_t cnt = 0;
        bool ok = true;
        for (typename V::reverse_iterator r = v.rbegin (); r != v.rend (); ++r, ++cnt)
          ok = ok && mk<T>::key (*r) == mk<T>::key (mk<T>::at (static_cast<int> (size - 1 - cnt)));
        CHECK_IT (ok && cnt == size, "reverse traversal");
        cnt = 0;
        for (I it = v.end (); it != v.begin ();)
        {
          const I old = it--;
          ok = ok && old.base () == v.data () + (size - cnt) && it.base () == v.data () + (size - cnt - 1);
          ++cnt;
        }
        CHECK_IT (ok && cnt == size, "backwards traversal with it--");
        I d1 = I (), d2 = I ();
        CHECK_IT (d1 == d2, "value-initialised iterators compare equal");
      }
    }
}

// --- allocators with class-type ("fancy") pointers: the iterators wrap that pointer type, and
//     their comparison operators take other overloads (a fancy pointer with the six classic
//     comparisons but no operator<=> reaches the synthesised three-way fall-back in C++20).
//     Checked by index only: for a = begin()+i, b = begin()+j every operator must agree with the
//     integers i and j.
template <class T, bool Spaceship>
class fancy_ptr
{
public:
  typedef T                                               element_type;
  typedef std::ptrdiff_t                                  difference_type;
  typedef typename std::remove_cv<T>::type                value_type;
  typedef T                                              *pointer;
  typedef typename std::add_lvalue_reference<T>::type     reference;
  typedef std::random_access_iterator_tag                 iterator_category;
#if defined (__cpp_lib_concepts) && __cpp_lib_concepts >= 201907L
  typedef std::contiguous_iterator_tag                    iterator_concept;
#endif
  template <class U> using rebind = fancy_ptr<U, Spaceship>; // (non-type parameter: no default rebind)

  fancy_ptr (void) = default;
  fancy_ptr (std::nullptr_t) noexcept : m_p (nullptr) { }
  fancy_ptr (T *p) noexcept : m_p (p) { }
  template <class U, typename std::enable_if<std::is_convertible<U *, T *>::value
                                             && ! std::is_same<U, T>::value, int>::type = 0>
  fancy_ptr (const fancy_ptr<U, Spaceship>& o) noexcept : m_p (o.get ()) { }
  template <class U, typename std::enable_if<std::is_void<U>::value && ! std::is_void<T>::value
                                             && (std::is_const<T>::value || ! std::is_const<U>::value),
                                             long>::type = 0>
  explicit fancy_ptr (const fancy_ptr<U, Spaceship>& o) noexcept : m_p (static_cast<T *> (o.get ())) { }

  template <class U = T, typename std::enable_if<! std::is_void<U>::value, int>::type = 0>
  static fancy_ptr pointer_to (U& r) noexcept { return fancy_ptr (std::addressof (r)); }

  T *get (void) const noexcept { return m_p; }
  reference operator* (void) const noexcept { return *m_p; }
  pointer operator-> (void) const noexcept { return m_p; }
  reference operator[] (difference_type n) const noexcept { return m_p[n]; }
  fancy_ptr& operator++ (void) noexcept { ++m_p; return *this; }
  fancy_ptr& operator-- (void) noexcept { --m_p; return *this; }
  fancy_ptr operator++ (int) noexcept { fancy_ptr r (*this); ++m_p; return r; }
  fancy_ptr operator-- (int) noexcept { fancy_ptr r (*this); --m_p; return r; }
  fancy_ptr& operator+= (difference_type n) noexcept { m_p += n; return *this; }
  fancy_ptr& operator-= (difference_type n) noexcept { m_p -= n; return *this; }
  friend fancy_ptr operator+ (fancy_ptr p, difference_type n) noexcept { return fancy_ptr (p.m_p + n); }
  friend fancy_ptr operator+ (difference_type n, fancy_ptr p) noexcept { return fancy_ptr (p.m_p + n); }
  friend fancy_ptr operator- (fancy_ptr p, difference_type n) noexcept { return fancy_ptr (p.m_p - n); }
  friend difference_type operator- (fancy_ptr l, fancy_ptr r) noexcept { return l.m_p - r.m_p; }
  friend bool operator== (fancy_ptr l, fancy_ptr r) noexcept { return l.m_p == r.m_p; }
  friend bool operator!= (fancy_ptr l, fancy_ptr r) noexcept { return l.m_p != r.m_p; }
  friend bool operator< (fancy_ptr l, fancy_ptr r) noexcept { return l.m_p < r.m_p; }
  friend bool operator> (fancy_ptr l, fancy_ptr r) noexcept { return l.m_p > r.m_p; }
  friend bool operator<= (fancy_ptr l, fancy_ptr r) noexcept { return l.m_p <= r.m_p; }
  friend bool operator>= (fancy_ptr l, fancy_ptr r) noexcept { return l.m_p >= r.m_p; }
#if defined (__cpp_impl_three_way_comparison) && __cpp_impl_three_way_comparison >= 201907L
  template <bool S = Spaceship, typename std::enable_if<S, int>::type = 0>
  friend std::strong_ordering operator<=> (fancy_ptr l, fancy_ptr r) noexcept { return l.m_p <=> r.m_p; }
#endif

private:
  T *m_p;
};

template <class T, bool Spaceship>
struct fancy_allocator
{
  typedef T                         value_type;
  typedef fancy_ptr<T, Spaceship>   pointer;
  template <class U> struct rebind { typedef fancy_allocator<U, Spaceship> other; };
  fancy_allocator (void) = default;
  template <class U> fancy_allocator (const fancy_allocator<U, Spaceship>&) noexcept { }
  pointer allocate (std::size_t n) { return pointer (std::allocator<T> ().allocate (n)); }
  void deallocate (pointer p, std::size_t n) noexcept { std::allocator<T> ().deallocate (p.get (), n); }
  template <class U> bool operator== (const fancy_allocator<U, Spaceship>&) const noexcept { return true; }
  template <class U> bool operator!= (const fancy_allocator<U, Spaceship>&) const noexcept { return false; }
};

template <class It, class It2>
static void
by_index (const char *type, unsigned N, std::size_t size, It first, It2 first2, const char *combo)
{
  const long n = static_cast<long> (size);
  for (long i = 0; i <= n; ++i)
    for (long j = 0; j <= n; ++j)
    {
      const It a = first + i;
      const It2 b = first2 + j;
      ++cases;
      const bool ok = (a == b) == (i == j) && (a != b) == (i != j) && (a < b) == (i < j)
                   && (a <= b) == (i <= j) && (a > b) == (i > j) && (a >= b) == (i >= j)
                   && (b < a) == (j < i) && (b <= a) == (j <= i) && (b > a) == (j > i)
                   && (b >= a) == (j >= i) && (b - a) == (j - i) && (a - b) == (i - j);
      if (! ok)
        fail (combo, type, N, size, i, j);
#if defined (__cpp_impl_three_way_comparison) && __cpp_impl_three_way_comparison >= 201907L
      ++cases;
      if (((a <=> b) < 0) != (i < j) || ((a <=> b) > 0) != (i > j) || ((a <=> b) == 0) != (i == j))
        fail ("<=> (fancy pointer)", type, N, size, i, j);
#endif
    }
}

template <bool Spaceship, unsigned N>
static void
run_fancy (const char *type)
{
  typedef gch::small_vector<int, N, fancy_allocator<int, Spaceship> > V;
  typedef typename V::iterator I;
  typedef typename V::const_iterator CI;
  for (std::size_t size = 0; size <= 6; ++size)
    for (int heap = 0; heap < 2; ++heap)
    {
      V v;
      if (heap)
        v.reserve (N + 9);
      for (std::size_t k = 0; k < size; ++k)
        v.push_back (static_cast<int> (100 + k));
      const V& cv = v;
      by_index (type, N, size, v.begin (), v.begin (), "iterator x iterator (fancy pointer)");
      by_index (type, N, size, cv.begin (), cv.begin (), "const_iterator x const_iterator (fancy pointer)");
      by_index (type, N, size, v.begin (), cv.begin (), "iterator x const_iterator (fancy pointer)");
      by_index (type, N, size, cv.begin (), v.begin (), "const_iterator x iterator (fancy pointer)");
      const long n = static_cast<long> (size);
      for (long i = 0; i < n; ++i)
      {
        const long j = 0;
        I t = v.begin () + i;
        ++cases;
        if (*t != 100 + i || v.begin ()[i] != 100 + i || *(t.operator-> ()) != 100 + i)
          fail ("* / [] / -> (fancy pointer)", type, N, size, i, j);
        I r = t++;
        ++cases;
        if (r - v.begin () != i || t - v.begin () != i + 1)
          fail ("it++ (fancy pointer)", type, N, size, i, j);
        r = t--;
        ++cases;
        if (r - v.begin () != i + 1 || t - v.begin () != i)
          fail ("it-- (fancy pointer)", type, N, size, i, j);
        CI c = t;
        ++cases;
        if (c - cv.begin () != i || (c += (n - i)) != cv.end () || (c -= n) != cv.begin ())
          fail ("const_iterator += / -= (fancy pointer)", type, N, size, i, j);
      }
      ++cases;
      long cnt = 0;
      for (I it = v.end (); it > v.begin (); --it)
        ++cnt;
      if (cnt != n)
      {
        const long i = cnt, j = n;
        fail ("backwards loop with > (fancy pointer)", type, N, size, i, j);
      }
    }
}

int
main (void)
{
  run_fancy<false, 0> ("int, fancy pointer without <=>"); run_fancy<false, 3> ("int, fancy pointer without <=>");
#if defined (__cpp_impl_three_way_comparison) && __cpp_impl_three_way_comparison >= 201907L
  run_fancy<true, 0> ("int, fancy pointer with <=>"); run_fancy<true, 3> ("int, fancy pointer with <=>");
#endif
  run<int, 0> ("int"); run<int, 3> ("int"); run<int, 8> ("int");
  run<std::string, 0> ("std::string"); run<std::string, 3> ("std::string"); run<std::string, 8> ("std::string");
  std::printf ("ITER cases=%lu failures=%lu\n", cases, failures);
  return failures ? 1 : 0;
}

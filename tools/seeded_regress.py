#!/usr/bin/env python3
"""Re-run every stored seeded change (seeded/<id>/patch.diff) against the checks that are on
record as catching it (meta.json: also_caught_by, else breaks_property), each in a scratch copy
of the repository (VERIF_REPO) with evidence/replays redirected (VERIF_OUT).

usage: seeded_regress.py [--first-only] [id-substring ...]
Writes seeded_regress.json; exit 1 if a change that was caught is no longer caught."""
import json
import os
import shutil
import subprocess
import sys
import time

VERIF = os.path.dirname(os.path.dirname(os.path.abspath(__file__)))


def main(argv):
    first_only = "--first-only" in argv
    subs = [a for a in argv[1:] if not a.startswith("--")]
    root = os.path.join(VERIF, "seeded")
    scratch = os.environ.get("SEEDED_SCRATCH", "/tmp/svrepo-seeded")
    out = scratch + "-out"
    rows = []
    for name in sorted(os.listdir(root)):
        d = os.path.join(root, name)
        if not os.path.isfile(os.path.join(d, "patch.diff")):
            continue
        if subs and not any(s in name for s in subs):
            continue
        meta = json.load(open(os.path.join(d, "meta.json"))) if os.path.exists(os.path.join(d, "meta.json")) else {}
        checks = meta.get("also_caught_by") or [meta.get("breaks_property", name[:3])]
        if first_only:
            checks = checks[:1]
        shutil.rmtree(scratch, ignore_errors=True)
        os.makedirs(scratch)
        subprocess.run("git -C /repo archive HEAD source | tar -x -C %s" % scratch, shell=True, check=True)
        p = subprocess.run(["git", "apply", os.path.join(d, "patch.diff")], cwd=scratch,
                           stdout=subprocess.PIPE, stderr=subprocess.STDOUT, text=True)
        if p.returncode != 0:
            rows.append(dict(id=name, ok=False, why="patch does not apply to /repo HEAD"))
            print("%-70s PATCH DOES NOT APPLY" % name, flush=True)
            continue
        env = dict(os.environ, VERIF_REPO=scratch, VERIF_OUT=out)
        res = {}
        for c in checks:
            t0 = time.time()
            q = subprocess.run([os.path.join(VERIF, "check"), c], env=env, cwd=VERIF,
                               stdout=subprocess.PIPE, stderr=subprocess.STDOUT, text=True)
            viol = [l for l in q.stdout.splitlines() if l.startswith("VIOLATION")]
            res[c] = dict(rc=q.returncode, violations=len(viol), wall=round(time.time() - t0, 1))
        ok = all(r["rc"] == 1 and r["violations"] > 0 for r in res.values())
        rows.append(dict(id=name, ok=ok, checks=res))
        print("%-70s %s  %s" % (name, "caught" if ok else "MISSED",
                                " ".join("%s:rc=%d" % (c, r["rc"]) for c, r in res.items())), flush=True)
        with open(os.path.join(VERIF, "seeded_regress.json"), "w") as f:
            json.dump(rows, f, indent=1)
    shutil.rmtree(scratch, ignore_errors=True)
    shutil.rmtree(out, ignore_errors=True)
    bad = [r for r in rows if not r["ok"]]
    print("%d of %d stored changes are reported by the checks on record" % (len(rows) - len(bad), len(rows)))
    return 1 if bad else 0


if __name__ == "__main__":
    sys.exit(main(sys.argv))

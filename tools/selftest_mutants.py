#!/usr/bin/env python3
"""Sensitivity corpus: hand-made changes to small_vector.hpp, each annotated with the check(s)
that must report it (or with 'green': no check may report it). Every change is applied to a
scratch copy of the repository (VERIF_REPO), never to /repo.

usage: selftest_mutants.py [name ...]      (no names: the whole corpus)
"""
import json
import os
import shutil
import subprocess
import sys
import time

VERIF = os.path.dirname(os.path.dirname(os.path.abspath(__file__)))
HDR = "source/include/gch/small_vector.hpp"

# (name, checks that must report it ([] = must stay green; then `green_checks` are run),
#  old text, new text, which occurrence (0-based))
M = []


def mut(name, expect, old, new, occ=0, green_checks=()):
    M.append(dict(name=name, expect=list(expect), old=old, new=new, occ=occ, green_checks=list(green_checks)))


mut("M01_assign_input_keeps_tail", ["C01"],
    "        if (first == last)\n          erase_to_end (curr);\n",
    "        if (first == last)\n          { }\n")
mut("M02_shrink_allocates_when_size_eq_N", ["C02"],
    "        if (InlineCapacity < get_size ())\n        {\n          new_capacity = get_size ();",
    "        if (InlineCapacity <= get_size ())\n        {\n          new_capacity = get_size ();")
mut("M03_fill_catch_no_destroy", ["C03", "C06"],
    "            construct (curr, val);\n          return curr;\n        }\n        GCH_CATCH (...)\n        {\n          destroy_range (first, curr);\n",
    "            construct (curr, val);\n          return curr;\n        }\n        GCH_CATCH (...)\n        {\n")
mut("M04_reserve_leaks_old_block", ["C04"],
    "        wipe ();\n\n        set_data_ptr (new_begin);\n        set_capacity (new_capacity);",
    "        destroy_range (begin_ptr (), end_ptr ());\n\n        set_data_ptr (new_begin);\n        set_capacity (new_capacity);")
mut("M05_resize_relocates_by_move", ["C05"],
    "            // Strong exception guarantee.\n            uninitialized_move<strong_exception_policy> (begin_ptr (), end_ptr (), new_data_ptr);\n          }\n          GCH_CATCH (...)\n          {\n            destroy_range (unchecked_next (new_data_ptr, original_size), new_last);",
    "            // Strong exception guarantee.\n            uninitialized_move (begin_ptr (), end_ptr (), new_data_ptr);\n          }\n          GCH_CATCH (...)\n          {\n            destroy_range (unchecked_next (new_data_ptr, original_size), new_last);")
mut("M06_swap_forgets_allocator", ["C07"],
    "          other.swap_elements (*this);\n\n        alloc_interface::maybe_swap (other);\n      }",
    "          other.swap_elements (*this);\n      }")
mut("M07_copy_ctor_ignores_soccc", ["C07"],
    "        : alloc_base (alloc_traits::select_on_container_copy_construction (other.allocator_ref ()))",
    "        : alloc_base (other.allocator_ref ())")
# (an earlier M08 allocated InlineCapacity + 1 elements for the constant-evaluated "inline" buffer
#  and deallocated InlineCapacity: neither g++ 12 nor clang 14 checks the count passed to
#  deallocate during constant evaluation, so that change is not observable by C08's executor and
#  was replaced by one that is)
mut("M08_constexpr_temporary_never_released", ["C08"],
    "          m_interface.destroy (m_data_ptr);\n          m_interface.deallocate (m_data_ptr, sizeof (value_ty));\n        }\n\n        GCH_NODISCARD GCH_CPP20_CONSTEXPR\n        const value_ty&\n        get (void) const noexcept\n        {\n          return *m_data_ptr;",
    "          m_interface.destroy (m_data_ptr);\n        }\n\n        GCH_NODISCARD GCH_CPP20_CONSTEXPR\n        const value_ty&\n        get (void) const noexcept\n        {\n          return *m_data_ptr;")
mut("M08b_constexpr_insert_forgets_size", ["C08"],
    "              uninitialized_move (pos, original_end, end_ptr ());\n              increase_size (tail_size);\n\n              std::fill_n (pos, tail_size, tmp.get ());\n\n              return pos;",
    "              uninitialized_move (pos, original_end, end_ptr ());\n\n              std::fill_n (pos, tail_size, tmp.get ());\n\n              return pos;")
mut("M09_move_ctor_smaller_N_never_steals", ["C09"],
    "        if (other.has_allocation ())\n        {\n          set_data (other.data_ptr (), other.get_capacity (), other.get_size ());\n          other.set_default ();\n        }\n        else\n        {\n          if (InlineCapacity < other.get_size ())",
    "        if (other.has_allocation () && other.get_size () == 0)\n        {\n          set_data (other.data_ptr (), other.get_capacity (), other.get_size ());\n          other.set_default ();\n        }\n        else\n        {\n          if (InlineCapacity < other.get_size ())")
mut("M10_reserve_equal_capacity_reallocates", ["C10"],
    "        if (request <= get_capacity ())\n          return;",
    "        if (request < get_capacity ())\n          return;")
mut("M11_emplace_no_temporary", ["C11"],
    "        stack_temporary tmp (*this, std::forward<Args> (args)...);\n        shift_into_uninitialized (pos, 1);\n        *pos = tmp.release ();\n        return pos;",
    "        shift_into_uninitialized (pos, 1);\n        *pos = value_ty (std::forward<Args> (args)...);\n        return pos;")
mut("M12_append_copies_no_max_size_guard", ["C12"],
    "          // Reallocate.\n          if (get_max_size () - get_size () < count)\n            throw_allocation_size_error ();\n\n          size_ty original_size = get_size ();\n          size_ty new_size      = get_size () + count;",
    "          // Reallocate.\n          size_ty original_size = get_size ();\n          size_ty new_size      = get_size () + count;")
mut("M13_memmove_left_one_short", ["C13"],
    "          std::memmove (to_address (d_first), to_address (first), num_moved * sizeof (value_ty));",
    "          std::memmove (to_address (d_first), to_address (first), (num_moved - 1) * sizeof (value_ty));")
mut("M14_growth_plus_four", ["C14"],
    "        const size_ty new_capacity = 2 * current_capacity;",
    "        const size_ty new_capacity = current_capacity + 4;")
mut("M15_assign_input_double_deref", ["C15"],
    "        for (; ! (end_ptr () == curr || first == last); ++curr, static_cast<void> (++first))\n          *curr = *first;",
    "        for (; ! (end_ptr () == curr || first == last); ++curr, static_cast<void> (++first))\n        {\n          *curr = *first;\n          *curr = *first;\n        }")
mut("M16_greater_than_pre_cxx20", ["C16"],
    "              const small_vector<T, InlineCapacityRHS, Allocator>& rhs)\n  {\n    return rhs < lhs;\n  }",
    "              const small_vector<T, InlineCapacityRHS, Allocator>& rhs)\n  {\n    return lhs < rhs;\n  }")
mut("M17_growth_depends_on_standard", ["C17"],
    "        const size_ty new_capacity = 2 * current_capacity;",
    "#ifdef GCH_VARIABLE_TEMPLATES\n        const size_ty new_capacity = 3 * current_capacity;\n#else\n        const size_ty new_capacity = 2 * current_capacity;\n#endif")
mut("M18_noexcept_on_allocating_move_assign", ["C18"],
    "      move_assign_unequal_no_propagate (small_vector_base<Allocator, I>&& other)\n      {",
    "      move_assign_unequal_no_propagate (small_vector_base<Allocator, I>&& other) noexcept\n      {")
mut("M19_clear_not_noexcept", ["C18"],
    "    clear (void) noexcept\n",
    "    clear (void)\n")
mut("G01_growth_ceil_1_5", [],
    "        const size_ty new_capacity = 2 * current_capacity;",
    "        const size_ty new_capacity = current_capacity + (current_capacity + 1) / 2;",
    green_checks=["C01", "C02", "C04", "C10", "C14"])
mut("G02_erase_all_reordered", [],
    "        ptr curr_end = end_ptr ();\n        set_size (0);\n        destroy_range (begin_ptr (), curr_end);",
    "        ptr curr_end = end_ptr ();\n        destroy_range (begin_ptr (), curr_end);\n        set_size (0);",
    green_checks=["C01", "C03", "C06"])


def nth_replace(text, old, new, occ):
    idx = -1
    for _ in range(occ + 1):
        idx = text.find(old, idx + 1)
        if idx < 0:
            return None
    return text[:idx] + new + text[idx + len(old):]


def main(argv):
    names = set(argv[1:])
    scratch = os.environ.get("SELFTEST_SCRATCH", "/tmp/svrepo-mut")
    results = []
    base = open(os.path.join("/repo", HDR)).read()
    for m in M:
        if names and m["name"] not in names:
            continue
        shutil.rmtree(scratch, ignore_errors=True)
        os.makedirs(os.path.join(scratch, os.path.dirname(HDR)))
        text = nth_replace(base, m["old"], m["new"], m["occ"])
        if text is None:
            print("%-45s PATCH DOES NOT APPLY" % m["name"], flush=True)
            results.append(dict(name=m["name"], ok=False, why="patch does not apply"))
            continue
        with open(os.path.join(scratch, HDR), "w") as f:
            f.write(text)
        env = dict(os.environ, VERIF_REPO=scratch, VERIF_OUT=scratch + "-out")
        checks = m["expect"] or m["green_checks"]
        row = dict(name=m["name"], expect=m["expect"], results={})
        ok = True
        for c in checks:
            t0 = time.time()
            p = subprocess.run([os.path.join(VERIF, "check"), c], env=env, stdout=subprocess.PIPE,
                               stderr=subprocess.STDOUT, text=True, cwd=VERIF)
            viol = [l for l in p.stdout.splitlines() if l.startswith("VIOLATION")]
            first = next((l for l in p.stdout.splitlines() if l.startswith("[check %s] " % c) and " at " in l), "")
            row["results"][c] = dict(rc=p.returncode, violations=len(viol), first=first[:200],
                                     wall=round(time.time() - t0, 1))
            if m["expect"]:
                ok = ok and p.returncode == 1 and len(viol) > 0
            else:
                ok = ok and p.returncode == 0
        row["ok"] = ok
        results.append(row)
        print("%-45s %s  %s" % (m["name"], "OK  " if ok else "MISS",
                                " ".join("%s:rc=%d" % (c, r["rc"]) for c, r in row["results"].items())), flush=True)
        for c, r in row["results"].items():
            if r["first"]:
                print("      " + r["first"], flush=True)
    shutil.rmtree(scratch, ignore_errors=True)
    shutil.rmtree(scratch + "-out", ignore_errors=True)
    # violations found while testing mutants are written under replays/: remove them
    out = os.path.join(VERIF, "mutants_selftest.json")
    with open(out, "w") as f:
        json.dump(results, f, indent=1)
    bad = [r for r in results if not r.get("ok")]
    print("%d of %d as expected" % (len(results) - len(bad), len(results)))
    return 1 if bad else 0


if __name__ == "__main__":
    sys.exit(main(sys.argv))

"""C08: generate translation units that evaluate seeded histories in the constant evaluator and
at run time (cx/cx_interp.hpp)."""
import hashlib
import random

NKINDS = 39
ALIAS = {33, 34, 35, 36, 37, 38}
TWO_CONTAINER = {17, 18, 19, 20, 21, 23, 24, 25, 26, 27, 28}  # assign/swap/append/ctor between containers
GROWING = {0, 1, 2, 3, 4, 5, 10, 11, 12, 14, 15, 22}

ELEMS = ["int", "cx::pod2", "cx::nontrivial"]
NM = [(0, 0), (0, 3), (2, 5), (5, 2), (3, 3), (1, 0), (4, 7), (8, 1)]


def configs():
    out = []
    for e in ELEMS:
        for alloc in ("std::allocator<%s>", "cx::prop_alloc<%s>"):
            for n, m in NM:
                out.append((e, n, m, alloc % e))
    return out


def gen_history(rng, nops):
    ops = []
    for _ in range(nops):
        r = rng.random()
        if r < 0.40:
            k = rng.choice(sorted(GROWING))
        elif r < 0.62:
            k = rng.choice(sorted(TWO_CONTAINER))
        elif r < 0.76:
            k = rng.choice(sorted(ALIAS))
        else:
            k = rng.randrange(NKINDS)
        ops.append((k, rng.randrange(2), rng.randrange(65536), rng.randrange(65536), rng.randrange(65536)))
    return ops


def nontrivial(ops):
    return any(o[0] in TWO_CONTAINER for o in ops) and sum(1 for o in ops if o[0] in GROWING) >= 6


def make_tu(seed, batch, count, nops):
    rng = random.Random(seed * 1000003 + batch)
    cfgs = configs()
    lines = ['#include "cx_interp.hpp"', "#include <cstdio>", "using namespace cx;", ""]
    entries = []
    meta = []
    for i in range(count):
        e, n, m, a = cfgs[(batch * count + i) % len(cfgs)]
        ops = gen_history(rng, rng.randrange(max(4, nops // 2), nops + 1))
        hid = "H%d" % i
        lines.append("constexpr op %s[] = { %s };" % (hid, ", ".join("{%d,%d,%d,%d,%d}" % o for o in ops)))
        lines.append("constexpr trace C%d = run<%s, %d, %d, %s > (%s, %d);" % (i, e, n, m, a, hid, len(ops)))
        entries.append('  { "%s N=%d M=%d %s", %s, %d, &C%d, &run<%s, %d, %d, %s > },' % (e, n, m, a, hid, len(ops), i, e, n, m, a))
        meta.append(dict(index=i, config="%s N=%d M=%d %s" % (e, n, m, a), ops=len(ops), nontrivial=nontrivial(ops),
                         digest=hashlib.sha256(repr(ops).encode()).hexdigest()[:16],
                         text=" ".join("%d:%d:%d:%d:%d" % o for o in ops)))
    lines += ["", "struct entry { const char *cfg; const op *ops; unsigned n; const trace *ct; trace (*rt) (const op *, unsigned); };",
              "static const entry entries[] = {"] + entries + ["};", "",
              "int main (void)", "{", "  unsigned long steps = 0, mism = 0;",
              "  for (unsigned i = 0; i < sizeof (entries) / sizeof (entries[0]); ++i)", "  {",
              "    trace (*volatile f) (const op *, unsigned) = entries[i].rt;",
              "    const trace r = f (entries[i].ops, entries[i].n);",
              "    steps += r.n;",
              "    if (r.alloc_wrong_instance || r.alloc_unknown || r.alloc_leaked || entries[i].ct->alloc_wrong_instance",
              "        || entries[i].ct->alloc_unknown || entries[i].ct->alloc_leaked)", "    {",
              '      std::printf ("CXMISMATCH hist=%u step=%u op=%u cfg=%s allocator-pairing: run time wrong=%d unknown=%d leaked=%d, constant evaluation wrong=%d unknown=%d leaked=%d\\n", i, 0u, 0u, entries[i].cfg, r.alloc_wrong_instance, r.alloc_unknown, r.alloc_leaked, entries[i].ct->alloc_wrong_instance, entries[i].ct->alloc_unknown, entries[i].ct->alloc_leaked);',
              "      ++mism;", "      continue;", "    }",
              "    for (unsigned k = 0; k < r.n || k < entries[i].ct->n; ++k)",
              "      if (r.n != entries[i].ct->n || r.h[k] != entries[i].ct->h[k])", "      {",
              '        std::printf ("CXMISMATCH hist=%u step=%u op=%u cfg=%s\\n", i, k, entries[i].ops[k].k % NKINDS, entries[i].cfg);',
              "        ++mism;", "        break;", "      }", "  }",
              '  std::printf ("CX histories=%lu steps=%lu mismatches=%lu\\n", (unsigned long) (sizeof (entries) / sizeof (entries[0])), steps, mism);',
              "  return mism ? 1 : 0;", "}", ""]
    return "\n".join(lines), meta

"""Driver library for /verif/check: runs svsim workers in parallel, attributes crashes,
minimises and gates violations, matches known findings, writes evidence."""
import hashlib
import json
import os
import re
import subprocess
import sys
import tempfile
import time
from concurrent.futures import ThreadPoolExecutor

HERE = os.path.dirname(os.path.abspath(__file__))
VERIF = os.path.dirname(HERE)
# where evidence/ and replays/ are written: /verif unless a sensitivity run redirects them
OUT = os.environ.get("VERIF_OUT", VERIF)
sys.path.insert(0, HERE)
import build as B  # noqa: E402
import universes as UV  # noqa: E402

NCPU = int(os.environ.get("VERIF_JOBS", "16"))
EV_KINDS = ["alloc", "ctor_default", "ctor_value", "ctor_copy", "ctor_move", "assign_copy",
            "assign_move", "iter_deref", "iter_inc", "gen_call", "swap", "compare", "pred",
            "alloc_construct"]
MASK_ALL = (1 << len(EV_KINDS)) - 1
MASK_C05 = 0b11111 | (1 << 13)  # alloc + the four constructor kinds + the allocator's construct()

CRASH_PROPS_MEMORY = {1, 2, 3, 12, 13}


def pid(n):
    return "C%02d" % n


class Violation:
    def __init__(self):
        self.universe = ""
        self.mode = ""
        self.seed = 0
        self.oracle = ""
        self.props = set()
        self.at = -1
        self.msg = ""
        self.world = "world 0 120 1"
        self.ops = []
        self.crash = None  # None | 'terminate' | 'asan' | 'signal'
        self.flavour = ""
        self.op_kind = ""
        self.also = []  # further violations raised in the same step: (oracle, props, msg)

    def signature(self):
        return (self.oracle, self.op_kind)

    def expect(self):
        return self.oracle


def props_from_mask(mask):
    return {p for p in range(1, 19) if mask & (1 << p)}


class TaskResult:
    def __init__(self):
        self.stats = {}
        self.violations = []
        self.samples = []
        self.sigs = set()
        self.crashes = 0
        self.error = None
        self.digests = {}


def parse_stats(line):
    d = {}
    for tok in line.split()[1:]:
        if "=" in tok:
            k, v = tok.split("=", 1)
            try:
                d[k] = int(v)
            except ValueError:
                pass
    return d


def add_stats(a, b):
    for k, v in b.items():
        a[k] = a.get(k, 0) + v


def op_kind_at(ops, at):
    if 0 <= at < len(ops):
        parts = ops[at].split()
        if len(parts) > 1:
            return parts[1]
    return "teardown" if at >= len(ops) else "?"


def run_proc(cmd, timeout=3600):
    try:
        p = subprocess.run(cmd, stdout=subprocess.PIPE, stderr=subprocess.PIPE, timeout=timeout)
        return p.returncode, p.stdout.decode("utf-8", "replace"), p.stderr.decode("utf-8", "replace")
    except subprocess.TimeoutExpired as e:
        out = (e.stdout or b"").decode("utf-8", "replace")
        return -999, out, "timeout"


def parse_output(text, flavour):
    """Returns (stats|None, violations, samples, crashinfo|None, last_begin, digests)"""
    stats = None
    viols = []
    samples = []
    crash = None
    last_begin = None
    cur = None
    ph = []
    last_ph = None
    digests = {}
    for line in text.splitlines():
        if line.startswith("BEGIN "):
            parts = line.split()
            last_begin = (parts[1], parts[2], int(parts[3]), int(parts[4]) if len(parts) > 4 else 0)
        elif line.startswith("VIOL "):
            m = re.match(r"VIOL (\S+) (\S+) (\d+) (\S+) props=(\d+) mine=(\d) at=(-?\d+) kind=(\S+) :: (.*)", line)
            cur = Violation()
            cur.flavour = flavour
            cur.run_index = last_begin[3] if last_begin else 0
            if m:
                cur.universe, cur.mode, cur.seed = m.group(1), m.group(2), int(m.group(3))
                cur.oracle = m.group(4)
                cur.props = props_from_mask(int(m.group(5)))
                cur.at = int(m.group(7))
                cur.kind_reported = m.group(8)
                cur.msg = m.group(9)
        elif line.startswith("ALSO ") and cur is not None:
            m = re.match(r"ALSO (\S+) props=(\d+) :: (.*)", line)
            if m:
                cur.also.append((m.group(1), props_from_mask(int(m.group(2))), m.group(3)))
        elif line.startswith("H ") and cur is not None:
            body = line[2:]
            if body.startswith("world"):
                cur.world = body
            else:
                cur.ops.append(body)
        elif line == "ENDVIOL" and cur is not None:
            cur.op_kind = getattr(cur, "kind_reported", None) or op_kind_at(cur.ops, cur.at)
            viols.append(cur)
            # co-violations share the history; each becomes a violation of its own oracle
            for (o2, p2, m2) in cur.also:
                if p2 - cur.props:
                    v2 = Violation()
                    v2.__dict__.update(cur.__dict__)
                    v2.oracle, v2.props, v2.msg, v2.also = o2, p2, m2, []
                    v2.secondary = True
                    viols.append(v2)
            cur = None
        elif line.startswith("PH "):
            ph.append(line[3:])
        elif line == "PHEND":
            last_ph = ph
            ph = []
        elif line.startswith("SAMPLE "):
            samples.append(line[7:])
        elif line.startswith("STATS "):
            stats = parse_stats(line)
        elif line.startswith("DIGEST "):
            parts = line.split()
            digests[(parts[1], parts[2])] = (parts[3], int(parts[4]) if len(parts) > 4 else 0)
        elif line.startswith("TERMINATE ") or line.startswith("SIGNAL ") or line.startswith("ASAN "):
            kind = line.split()[0].lower()
            info = dict(t.split("=", 1) for t in line.split()[1:] if "=" in t)
            if crash is None:
                crash = dict(kind=kind, op=info.get("op", "?"), index=int(info.get("index", -1)),
                             fired=int(info.get("fired", 0)), fkind=info.get("kind", ""))
    return stats, viols, samples, crash, last_begin, digests, last_ph


def crash_to_violation(crash, universe, mode, seed, flavour, world, ops):
    v = Violation()
    v.universe, v.mode, v.seed, v.flavour = universe, mode, seed, flavour
    v.crash = crash["kind"]
    v.at = crash["index"]
    v.op_kind = crash["op"]
    if crash["kind"] == "terminate" and crash["fired"] > 0:
        v.oracle = "noexcept.terminate"
        v.props = {18}
        v.msg = "std::terminate while an injected %s fault was propagating out of %s" % (
            crash.get("fkind", "?"), crash["op"])
    else:
        v.oracle = "crash." + crash["kind"]
        v.props = set(CRASH_PROPS_MEMORY)
        if crash["fired"] > 0:
            v.props |= {5, 6}
        v.msg = "%s during %s (faults fired: %d)" % (crash["kind"], crash["op"], crash["fired"])
    v.world = world or "world 0 120 1"
    v.ops = ops or []
    return v


class Task:
    def __init__(self, universe, mode, lo, hi, args):
        self.universe, self.mode, self.lo, self.hi, self.args = universe, mode, lo, hi, args


def run_task(binary, flavour, task, seed, sigdir):
    """Run one worker over [lo, hi); restart after a crash from the next run index."""
    res = TaskResult()
    lo = task.lo
    guard = 0
    while lo < task.hi and guard < 400:
        guard += 1
        sigfile = os.path.join(sigdir, "sig-%s-%s-%d-%d.txt" % (task.universe, task.mode, lo, os.getpid()))
        prefix = list(binary) if isinstance(binary, (list, tuple)) else [binary]
        cmd = prefix + ["--universe", task.universe, "--mode", task.mode, "--seed", str(seed),
                        "--runs", "%d:%d" % (lo, task.hi), "--sigfile", sigfile] + task.args
        rc, out, err = run_proc(cmd)
        stats, viols, samples, crash, last_begin, digests, _ = parse_output(out, flavour)
        res.violations.extend(viols)
        res.samples.extend(samples)
        res.digests.update(digests)
        if os.path.exists(sigfile):
            with open(sigfile) as f:
                res.sigs.update(l.strip() for l in f if l.strip())
            os.unlink(sigfile)
        if stats is not None and rc in (0, 1):
            add_stats(res.stats, stats)
            break
        if stats is not None and rc == 3:
            # the worker reported a violation and asked to be restarted behind that run
            add_stats(res.stats, stats)
            m = re.search(r"^RESTART (\d+)$", out, re.M)
            lo = int(m.group(1)) if m else (last_begin[3] + 1 if last_begin else task.hi)
            continue
        # the worker died: attribute, fetch the history, continue after the dead run
        res.crashes += 1
        if last_begin is None:
            res.error = "worker died before its first run (rc=%s): %s" % (rc, (err or out)[-400:])
            break
        idx = last_begin[3]
        if crash is None:
            if rc == 77:
                crash = dict(kind="asan", op="?", index=-1, fired=0, fkind="")
            elif rc == -999:
                crash = dict(kind="hang", op="?", index=-1, fired=0, fkind="")
            else:
                crash = dict(kind="signal", op="?", index=-1, fired=0, fkind="")
        cmd2 = prefix + ["--universe", task.universe, "--mode", task.mode, "--seed", str(seed),
                         "--runs", "%d:%d" % (idx, idx + 1), "--print-hist", "1"] + task.args
        rc2, out2, err2 = run_proc(cmd2, timeout=120)
        _, _, _, crash2, _, _, last_ph = parse_output(out2, flavour)
        world, ops = None, []
        # the history in flight is the last PH block that was *started* (it may lack PHEND)
        blocks = []
        curb = []
        for line in out2.splitlines():
            if line.startswith("PH "):
                curb.append(line[3:])
            elif line == "PHEND":
                blocks.append(curb)
                curb = []
        if blocks:
            blk = blocks[-1]
            world = blk[0] if blk and blk[0].startswith("world") else None
            ops = [l for l in blk if l.startswith("op ")]
        v = crash_to_violation(crash2 or crash, task.universe, task.mode, last_begin[2], flavour, world, ops)
        if crash2 is None and rc2 in (0, 1):
            v.msg += " [did not reproduce when the run was repeated alone]"
            v.oracle = "crash.unreproducible"
        res.violations.append(v)
        lo = idx + 1
    return res


def run_stage(binary, flavour, universes, mode, runs_per_universe, seed, args, chunk=None):
    """Spread (universe, run range) tasks over NCPU workers."""
    tasks = []
    if chunk is None:
        total = runs_per_universe * len(universes)
        # tasks of at most 20000 runs: a task must finish well inside the per-process timeout even
        # in the slow (large-size) universes and on a loaded machine
        chunk = max(1, min(runs_per_universe, total // (NCPU * 3) + 1, 20000))
    for u in universes:
        lo = 0
        while lo < runs_per_universe:
            hi = min(runs_per_universe, lo + chunk)
            tasks.append(Task(u["name"], mode, lo, hi, args))
            lo = hi
    sigdir = tempfile.mkdtemp(prefix="svsim-sig-", dir=os.path.join(VERIF, ".cache"))
    out = TaskResult()
    with ThreadPoolExecutor(max_workers=NCPU) as ex:
        for r in ex.map(lambda t: run_task(binary, flavour, t, seed, sigdir), tasks):
            add_stats(out.stats, r.stats)
            out.violations.extend(r.violations)
            for s in r.samples:
                if len(out.samples) < 6:
                    out.samples.append(s)
            out.sigs |= r.sigs
            out.crashes += r.crashes
            out.digests.update(r.digests)
            if r.error and not out.error:
                out.error = r.error
    try:
        os.rmdir(sigdir)
    except OSError:
        pass
    return out


# ---------------------------------------------------------------------------- replay / minimise
def write_replay(path, v, prop, note=""):
    with open(path, "w") as f:
        f.write("svsim-replay 1\n")
        f.write("property %s\n" % prop)
        f.write("universe %s\n" % v.universe)
        f.write("flavour %s\n" % v.flavour)
        f.write("expect %s\n" % v.expect())
        f.write("seed %d mode %s\n" % (v.seed, v.mode))
        if note:
            f.write("note %s\n" % note.replace("\n", " "))
        f.write("%s\n" % v.world)
        for o in v.ops:
            f.write(o + "\n")


def read_replay(path):
    d = dict(ops=[], world="world 0 120 1", universe="", flavour="asan20", expect="", property="")
    with open(path) as f:
        for line in f:
            line = line.rstrip("\n")
            if line.startswith("op "):
                d["ops"].append(line)
            elif line.startswith("world "):
                d["world"] = line
            else:
                for key in ("universe", "flavour", "expect", "property"):
                    if line.startswith(key + " "):
                        d[key] = line[len(key) + 1:].strip()
    return d


def observe(binary, universe, world, ops, flavour, known_args=(), want=None):
    """Run an explicit history in a fresh process. Returns (oracle-or-None, at, kind, tracehash)."""
    fd, path = tempfile.mkstemp(prefix="svsim-try-", suffix=".replay", dir=os.path.join(VERIF, ".cache"))
    with os.fdopen(fd, "w") as f:
        f.write("universe %s\n%s\n" % (universe, world))
        for o in ops:
            f.write(o + "\n")
    prefix = list(binary) if isinstance(binary, (list, tuple)) else [binary]
    rc, out, err = run_proc(prefix + ["--replay", path] + list(known_args), timeout=300)
    os.unlink(path)
    stats, viols, samples, crash, last_begin, _, _ = parse_output(out, flavour)
    trace = "\n".join(l for l in out.splitlines() if l.startswith("T ") or l.startswith("VIOL"))
    th = hashlib.sha256(trace.encode()).hexdigest()
    if viols:
        v = next((x for x in viols if want is not None and x.oracle == want), viols[0])
        return v.oracle, v.at, v.op_kind, th, v
    if crash is not None or rc not in (0, 1, 3):
        if crash is None:
            crash = dict(kind="asan" if rc == 77 else "signal", op="?", index=-1, fired=0, fkind="")
        cv = crash_to_violation(crash, universe, "replay", 0, flavour, world, ops)
        return cv.oracle, cv.at, cv.op_kind, th, cv
    return None, -1, "", th, None


def minimise(binary, v, budget_s=60, known_args=()):
    """ddmin over ops, then operand and fault-plan simplification; keeps the oracle id fixed."""
    t0 = time.time()
    want = v.expect()
    ops = list(v.ops)
    tries = [0]

    def fails(cand):
        tries[0] += 1
        o, _, _, _, _ = observe(binary, v.universe, v.world, cand, v.flavour, known_args, want=want)
        return o == want

    if not ops or not fails(ops):
        return ops, tries[0], False
    # truncate after the violating op where possible
    if 0 <= v.at < len(ops) - 1 and fails(ops[:v.at + 1]):
        ops = ops[:v.at + 1]
    # ddmin
    n = 2
    while len(ops) >= 2 and time.time() - t0 < budget_s:
        chunk = max(1, len(ops) // n)
        reduced = False
        for i in range(0, len(ops), chunk):
            cand = ops[:i] + ops[i + chunk:]
            if cand and fails(cand):
                ops = cand
                n = max(n - 1, 2)
                reduced = True
                break
        if not reduced:
            if chunk == 1:
                break
            n = min(len(ops), n * 2)
    # operand shrinking / fault plan simplification
    changed = True
    while changed and time.time() - t0 < budget_s:
        changed = False
        for i in range(len(ops)):
            parts = ops[i].split()
            # op name a b p0..p4 [fault m k [m2 j]]
            if "fault" in parts:
                fi = parts.index("fault")
                if len(parts) > fi + 3:  # drop second stage
                    cand = parts[:fi + 3]
                    c2 = ops[:i] + [" ".join(cand)] + ops[i + 1:]
                    if fails(c2):
                        ops = c2
                        parts = cand
                        changed = True
            for pi in range(4, 9):
                if pi >= len(parts) or parts[pi] == "fault":
                    break
                try:
                    cur = int(parts[pi])
                except ValueError:
                    break
                for small in (0, 1, 2, 3):
                    if cur <= small:
                        break
                    cand = list(parts)
                    cand[pi] = str(small)
                    c2 = ops[:i] + [" ".join(cand)] + ops[i + 1:]
                    if fails(c2):
                        ops = c2
                        parts = cand
                        changed = True
                        break
    return ops, tries[0], True


def gate_and_minimise(binary, v, prop, replay_dir, budget_s=60, known_args=()):
    """Returns (path, reproduced, info). A violation that does not reproduce is a machinery fault."""
    want = v.expect()
    o1 = observe(binary, v.universe, v.world, v.ops, v.flavour, known_args, want=want)
    o2 = observe(binary, v.universe, v.world, v.ops, v.flavour, known_args, want=want)
    if o1[0] != want or o2[0] != want or o1[3] != o2[3]:
        return None, False, "re-run gave %s / %s (trace hashes %s / %s), expected %s" % (
            o1[0], o2[0], o1[3][:8], o2[3][:8], want)
    ops, tries, ok = minimise(binary, v, budget_s, known_args)
    mv = Violation()
    mv.__dict__.update(v.__dict__)
    mv.ops = ops
    o3 = observe(binary, v.universe, v.world, ops, v.flavour, known_args, want=want)
    if o3[0] != want:
        mv.ops = v.ops  # fall back to the unminimised history
        o3 = o1
    if o3[4] is not None:
        mv.at, mv.op_kind, mv.msg = o3[1], o3[2], o3[4].msg
    os.makedirs(replay_dir, exist_ok=True)
    path = os.path.join(replay_dir, "%s-%s-%s-%d.replay" % (prop, v.oracle.replace(".", "_"), v.universe, v.seed))
    write_replay(path, mv, prop, note=mv.msg)
    return path, True, "minimised %d -> %d ops in %d re-runs" % (len(v.ops), len(mv.ops), tries)


# ---------------------------------------------------------------------------- known findings
def load_known():
    p = os.path.join(VERIF, "known_findings.json")
    if not os.path.exists(p):
        return []
    with open(p) as f:
        return json.load(f).get("findings", [])


def known_match(v, prop, known):
    for k in known:
        if k.get("status") != "known":
            continue  # "fixed" entries suppress nothing
        if k.get("property") != prop:
            continue
        if k.get("oracle") != v.oracle:
            continue
        ops = k.get("ops", ["*"])
        if "*" in ops or v.op_kind in ops:
            return k
    return None


def known_items_for(prop, known):
    """[(finding, op)] in the order in which they are handed to the engine (--known)."""
    items = []
    for k in known:
        if k.get("status") == "known" and k.get("engine_suppress"):
            for o in k.get("ops", ["*"]):
                items.append((k, o))
    return items


def known_args_for(prop, known):
    """Engine-level suppression (count, resynchronise, continue) for the listed known findings
    that do not kill the process. Every check passes them, so that a finding owned by one
    property does not cut short the runs of another."""
    items = known_items_for(prop, known)
    return ["--known", ",".join("%s:%s" % (k["oracle"], o) for k, o in items)] if items else []


# ---------------------------------------------------------------------------- evidence
def write_evidence(prop, tier, seed, level, coverage, wall_s, violations, assumptions):
    os.makedirs(os.path.join(OUT, "evidence"), exist_ok=True)
    ev = dict(property_id=prop, tier=tier, seed=seed, level=level, coverage=coverage,
              assumptions=assumptions, wall_s=round(wall_s, 2), violations=violations)
    path = os.path.join(OUT, "evidence", prop + ".json")
    with open(path + ".tmp", "w") as f:
        json.dump(ev, f, indent=1, sort_keys=True)
    os.replace(path + ".tmp", path)
    return path

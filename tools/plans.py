"""Per-property check plans: which universes, modes, fault spaces and budgets decide each property,
and the generic flow (build -> search -> attribute -> gate/minimise -> known findings -> evidence)."""
import json
import os
import sys
import time

import build as B
import driver as D
import universes as UV

VERIF = D.VERIF

COMPONENTS = {
    "real": ["gch/small_vector.hpp from /repo's working tree (unmodified, no hooks)",
             "libstdc++ 12 algorithms and allocator_traits it calls", "compiler-generated code"],
    "simulated": ["Allocator (sim_alloc / tracked std::allocator specialisation: ledger, canaries, bad_alloc injection)",
                  "element type T (sim_elem flavours: lifetime registry, throwing copy/move/assign)",
                  "caller iterators (single-pass stream, forward, bidirectional, random access) and generator",
                  "the caller: seeded choice of operation, operands and fault plan"],
    "stubbed": [],
    "simulated_time": "not applicable: the container has no clock, timer or scheduler; progress is counted in operations (steps)",
}

RULES = {
    "C01": "seeded histories (5..nops ops over 4 containers of 3 inline capacities) checked op by op against a std::vector model; non-trivial = a run in which an op ran on a container that has been both inline and heap, or a cross-capacity op ran; distinct = distinct run signature (sequence of op kind, pre-state class, reallocation, outcome, fault kind, range kind, capacity pair)",
    "C02": "storage invariants probed on all 4 containers after every step incl. throws and moved-from; non-trivial = run with an inline<->heap representation change or a fired fault; distinct by run signature",
    "C03": "element registry (address-keyed) checked at every element event and after every step; non-trivial = run with a reallocation, shift or fault on a container holding >= 2 elements; distinct by run signature",
    "C04": "allocator ledger checked at every deallocate and after every step, per-op allocate count vs 'result fits'; non-trivial = run with an op whose result fits in the capacity of a heap container; distinct by run signature",
    "C05": "fault sweep: state-targeted prefix + strong op, dry run counts E eligible events, then one execution per k in [0,E) with the k-th allocator/constructor event throwing; non-trivial = execution in which the fault fired inside a strong op and the unchanged-state oracle was evaluated; distinct by run signature",
    "C06": "fault sweep over all ops and all fault kinds (singles, and pairs (k,j) with the second throw after the first) + fault storms, each followed by a fault-free epilogue; non-trivial = execution with >= 1 fired fault; distinct by run signature",
    "C07": "storm over allocator universes (8 propagation combinations, always-equal, SOCCC toggling, equal/unequal ids); non-trivial = run with a binary op between containers with unequal allocator ids; distinct by run signature",
    "C09": "storm; non-trivial = run with >= 1 steal-required move/swap whose data()/serial/zero-event oracle was evaluated; distinct by run signature",
    "C10": "storm; non-trivial = run with >= 1 growing op that fits in capacity with a non-empty untouched prefix; distinct by run signature",
    "C11": "storm with alias-argument ops boosted; non-trivial = run with >= 1 alias op; distinct by run signature",
    "C12": "storm in narrow-size_type / small-max_size universes with counts clustered at max_size()-2..+2, 254..258 and 300; non-trivial = run with an op whose resulting size lies within 2 of max_size() or beyond; distinct by run signature",
    "C13": "storm in trivially-copyable universes + twin comparison + conversion grid; non-trivial = run with a contiguous-source op or a shift of >= 2 elements; distinct by run signature",
    "C14": "per-reallocation growth oracle in storms + long append runs; non-trivial = run with >= 1 reallocation of a listed op / a completed long run; distinct by run signature",
    "C15": "storm with range ops boosted, iterator seam verifies consumption; non-trivial = run with a single-pass range of length >= 2; distinct by run signature",
    "C16": "storm over a 4-value alphabet with comparison / non-member ops boosted + exhaustive small grid; non-trivial = run with a comparison or non-member op; distinct by run signature",
    "C17": "same seeds replayed in builds differing in -std / compiler; non-trivial = seed with a fired fault or a reallocation; distinct by run signature",
    "C18": "fault sweep with terminate oracle + noexcept table; non-trivial = execution with >= 1 fired fault or a noexcept-declared call; distinct by run signature",
}

ASSUME = [
    "x86-64, libstdc++ 12, g++ 12 / clang 14 only",
    "seeded search samples the history and fault space; a clean batch is evidence, not proof",
    "histories bounded: <= 40 ops, <= 64 elements (<= max_size()+3 in size universes), 4 containers",
]


def names(us):
    return [u["name"] for u in us]


def packs(*p):
    return UV.by_pack(*p)


def instrumented(us):
    """universes whose element lifetimes are observable: registry-tracked flavours, and trivially
    copyable ones behind an allocator with construct()/destroy() members (allocator's view)"""
    return [u for u in us if ("elem_tc" not in u["elem"] and "elem_b1" not in u["elem"])
            or u["name"] in ("alloc_TC_cm", "alloc_TC_legacy")]


def stage(mode, us, runs, prop, faults=0, nops=24, flavour="asan20", extra=()):
    return dict(mode=mode, universes=us, runs=runs, flavour=flavour,
                args=["--prop", str(prop), "--faults", str(faults), "--nops", str(nops)] + list(extra))


def storm(us, runs, prop, faults=0, nops=24, flavour="asan20"):
    return stage("storm", us, runs, prop, faults, nops, flavour)


def sweep(us, runs, prop, mask, pairs=0, flavour="asan20"):
    return stage("sweep", us, runs, prop, 0, 24, flavour,
                 ["--sweep-mask", str(mask), "--pairs", str(pairs)])


ALL = UV.UNIVERSES
NORMAL = [u for u in ALL if not u["big"]]
SIZE = packs("size")
ALLOCU = packs("alloc")
CORE = packs("core")
TWIN = packs("twin")
# -fno-exceptions engine (flavour nx20): every non-"big" core / twin universe plus the allocators
# with construct()/destroy() members (the big ones need length_error to be catchable)
NXU = [u for u in ALL if not u["big"] and (u["packs"] & {"core", "twin"} or "_cm" in u["name"] or "legacy" in u["name"])]


def plan(prop, tier):
    q = tier == "quick"
    n = int(prop[1:])
    return _plan(prop, q, n)


def R(quick, thorough_mult=8):
    """run counts per universe: (quick, thorough)"""
    return quick, quick * thorough_mult


def _plan(prop, q, n):
    if prop == "C01":
        extra = []
        if not q:  # the shipped flags (-O2 -DNDEBUG, no sanitizer)
            extra = [storm(NORMAL, 100000, n, 0, 32, "rel20")]
        extra.append(storm(NXU, 4000 if q else 40000, n, 0, 24 if q else 40, "nx20"))
        return extra + [storm(SIZE, 8000 if q else 80000, n, 0, 20 if q else 32),
                        storm(NORMAL, 30000 if q else 300000, n, 0, 24 if q else 40),
                storm(NORMAL, 12500 if q else 125000, n, 1, 24 if q else 40)]
    if prop == "C02":
        st = [storm(ALL, 25000 if q else 250000, n, 1, 24 if q else 40),
              storm(NXU, 3000 if q else 30000, n, 0, 24 if q else 40, "nx20")]
        if not q:  # header asserts as extra oracles (non-NDEBUG build)
            st.append(storm(NORMAL, 20000, n, 1, 32, "dbg20"))
        return st
    if prop == "C03":
        st = [storm(instrumented(ALL), 30000 if q else 300000, n, 1, 24 if q else 40),
              storm(instrumented(NXU), 3000 if q else 30000, n, 0, 24 if q else 40, "nx20")]
        if not q:  # MSan substitute: the shipped flags (-O2 -DNDEBUG, no sanitizer) under valgrind
            st.append(dict(storm(CORE + TWIN, 40, n, 1, 24, "rel20"), valgrind=True))
        return st
    if prop == "C04":
        return [storm(instrumented(NORMAL), 20000 if q else 200000, n, 1, 24 if q else 40),
                storm(instrumented(NORMAL), 15000 if q else 150000, n, 0, 24 if q else 40),
                storm(instrumented(NXU), 3000 if q else 30000, n, 0, 24 if q else 40, "nx20")]
    if prop == "C05":
        return [sweep(instrumented(NORMAL), 15000 if q else 100000, n, D.MASK_C05)]
    if prop == "C06":
        extra = []
        if not q:  # the documented opt-out build: only the basic guarantee is promised, and it must hold
            extra = [storm(packs("core"), 40000, n, 1, 32, "nostrong20"),
                     sweep(packs("core"), 2000, n, D.MASK_ALL, pairs=1, flavour="nostrong20")]
        return extra + [sweep(instrumented(NORMAL), 4000 if q else 30000, n, D.MASK_ALL, pairs=1),
                storm(instrumented(NORMAL), 12500 if q else 125000, n, 1, 24 if q else 40)]
    if prop == "C07":
        return [storm(ALLOCU + CORE, 30000 if q else 300000, n, 0, 24 if q else 40),
                storm(ALLOCU, 15000 if q else 150000, n, 1, 24 if q else 40)]
    if prop == "C09":
        return [storm(NORMAL, 35000 if q else 350000, n, 0, 24 if q else 40)]
    if prop == "C10":
        return [storm(NORMAL, 35000 if q else 350000, n, 0, 24 if q else 40)]
    if prop == "C11":
        return [storm(CORE + TWIN, 60000 if q else 600000, n, 0, 24 if q else 40),
                storm(CORE, 25000 if q else 250000, n, 1, 24 if q else 40)]
    if prop == "C12":
        st = [storm(SIZE, 60000 if q else 600000, n, 0, 20 if q else 32),
              storm(SIZE, 30000 if q else 300000, n, 1, 20 if q else 32)]
        if not q:
            st.append(storm(SIZE, 30000, n, 1, 32, "dbg20"))
        return st
    if prop == "C13":
        return [storm(TWIN, 100000 if q else 1000000, n, 0, 24 if q else 40)]
    if prop == "C14":
        return [storm(NORMAL, 25000 if q else 250000, n, 0, 24 if q else 40),
                stage("long", packs("core"), 4 if q else 12, n, 0, 24, "asan20",
                      ["--long-n", "100000" if q else "2000000"])]
    if prop == "C15":
        return [storm(NORMAL, 20000 if q else 200000, n, 1, 24 if q else 40),
                storm(NORMAL, 15000 if q else 150000, n, 0, 24 if q else 40)]
    if prop == "C16":
        return [storm(CORE + TWIN, 60000 if q else 600000, n, 0, 24 if q else 40)]
    if prop == "C18":
        return [sweep(instrumented(NORMAL), 8000 if q else 60000, n, D.MASK_ALL),
                storm(instrumented(NORMAL), 10000 if q else 100000, n, 1, 24 if q else 40)]
    return []


PLANS = {("C%02d" % i): True for i in range(1, 19)}
LEVEL = {p: "exploration" for p in PLANS}
LEVEL.update({"C08": "exploration", "C05": "fault_enumeration", "C06": "fault_enumeration", "C18": "fault_enumeration"})


def setup():
    """MANIFEST.setup_cmd: build the primary engine binary from files on disk only."""
    try:
        B.build("asan20", ALL)
        B.build("nx20", NXU)
        import specials as S
        for fl in S.C17_FLAVOURS:
            B.build(fl, UV.by_pack("c17"))
        S.aux_prebuild()
    except B.BuildError as e:
        print("setup: build failed:", e)
        print(e.output[-4000:])
        return 2
    return 0


def _fault_table(stats):
    """reach probe: {operation: {fault kind: count}} for faults that reached the caller"""
    t = {}
    for k, v in stats.items():
        if k.startswith("fo_"):
            for ev in D.EV_KINDS:
                if k.endswith("_" + ev):
                    op = k[3:-(len(ev) + 1)]
                    t.setdefault(op, {})[ev] = int(v)
                    break
    return t


def finish(prop, tier, seed, t0, agg, extra_cov, mine, unknown_paths, known_lines, machinery_error):
    stats = agg["stats"]
    wall = time.time() - t0
    evals = int(stats.get("evaluations", 0)) + int(extra_cov.get("extra_evaluations", 0))
    cov = dict(
        evaluations=evals,
        distinct_nontrivial=len(agg["sigs"]) + int(extra_cov.get("extra_distinct", 0)),
        rule=RULES.get(prop, ""),
        samples=agg["samples"][:3] + extra_cov.get("extra_samples", []),
        runs=int(stats.get("runs", 0)),
        operations=int(stats.get("ops", 0)),
        nontrivial_executions=int(stats.get("nontrivial", 0)),
        reallocations=int(stats.get("reallocs", 0)),
        steals_checked=int(stats.get("steals", 0)),
        faults={k: dict(armed=int(stats.get("armed_" + k, 0)), fired=int(stats.get("fired_" + k, 0)),
                        events_seen=int(stats.get("events_" + k, 0))) for k in D.EV_KINDS},
        operations_by_kind={k[3:]: int(v) for k, v in sorted(stats.items()) if k.startswith("op_")},
        faults_reaching_caller_by_operation=_fault_table(stats),
        foreign_violations=agg["foreign"],
        worker_crashes=agg["crashes"],
        seeds_per_hour=int(stats.get("runs", 0) * 3600 / wall) if wall > 0 else 0,
        evaluations_per_hour=int(evals * 3600 / wall) if wall > 0 else 0,
        universes=agg["universes"],
        stages=agg["stages"],
        components=COMPONENTS,
        known_findings_hit=known_lines,
        exhaustive=False,
    )
    for k, v in extra_cov.items():
        if not k.startswith("extra_"):
            cov[k] = v
    D.write_evidence(prop, tier, seed, LEVEL[prop], cov, wall, len(unknown_paths), ASSUME)
    for line in known_lines:
        print(line)
    for p in unknown_paths:
        print("VIOLATION property=%s replay=%s" % (prop, p))
    print("[check %s] tier=%s seed=%d evaluations=%d distinct_nontrivial=%d ops=%d faults_fired=%d "
          "foreign=%d crashes=%d wall=%.1fs" % (
              prop, tier, seed, cov["evaluations"], cov["distinct_nontrivial"], cov["operations"],
              sum(f["fired"] for f in cov["faults"].values()), agg["foreign"], agg["crashes"], wall))
    if machinery_error:
        print("[check %s] MACHINERY FAULT: %s" % (prop, machinery_error))
    # a reproduced violation is a verdict even if another alarm could not be reproduced
    if unknown_paths:
        return 1
    return 2 if machinery_error else 0


def run_check(prop, tier, seed):
    import specials as S
    t0 = time.time()
    n = int(prop[1:])
    known = D.load_known()
    agg = dict(stats={}, sigs=set(), samples=[], foreign=0, crashes=0, universes=[], stages=[])
    mine = []
    machinery_error = None
    binaries = {}
    kargs = D.known_args_for(prop, known)
    for st in plan(prop, tier):
        fl = st["flavour"]
        if fl not in binaries:
            try:
                binaries[fl] = B.build(fl, ALL if fl in ("asan20", "dbg20", "rel20") else
                                       (packs("core") if fl == "nostrong20" else
                                        NXU if fl == "nx20" else st["universes"]))
            except B.BuildError as e:
                print("[check %s] build failed: %s" % (prop, e))
                print(e.output[-3000:])
                return 2
        runner = binaries[fl]
        if st.get("valgrind"):
            runner = ["valgrind", "-q", "--error-exitcode=77", "--exit-on-first-error=yes", binaries[fl]]
        res = D.run_stage(runner, fl, st["universes"], st["mode"], st["runs"], seed,
                          st["args"] + kargs, chunk=10 if st.get("valgrind") else None)
        D.add_stats(agg["stats"], res.stats)
        agg["sigs"] |= res.sigs
        for s in res.samples:
            if len(agg["samples"]) < 3:
                agg["samples"].append(s)
        agg["crashes"] += res.crashes
        agg["stages"].append(dict(mode=st["mode"], flavour=fl, universes=len(st["universes"]),
                                  runs_per_universe=st["runs"], args=" ".join(st["args"])))
        for u in names(st["universes"]):
            if u not in agg["universes"]:
                agg["universes"].append(u)
        if res.error:
            machinery_error = res.error
        for v in res.violations:
            if n in v.props:
                mine.append((runner, v))
            else:
                agg["foreign"] += 1
    # property-specific extra stages (grids, tables, other executors)
    extra_cov = {}
    sp = S.SPECIALS.get(prop)
    if sp is not None:
        r = sp(prop, tier, seed, known)
        extra_cov = r.get("coverage", {})
        for item in r.get("violations", []):
            mine.append(item)
        if r.get("error"):
            machinery_error = r["error"]
    # known findings / unknown violations
    known_lines = []
    unknown = {}
    for binary, v in mine:
        k = D.known_match(v, prop, known)
        if k is not None:
            line = "KNOWN-FINDING: property=%s %s" % (prop, k.get("what", v.oracle))
            if line not in known_lines:
                known_lines.append(line)
            continue
        sig = (v.oracle, v.op_kind)
        if sig not in unknown:
            unknown[sig] = (binary, v, 1)
        else:
            b0, v0, c = unknown[sig]
            # prefer the shortest history as the starting point
            if len(v.ops) < len(v0.ops):
                unknown[sig] = (binary, v, c + 1)
            else:
                unknown[sig] = (b0, v0, c + 1)
    # engine-suppressed known findings are reported from the counters
    for i, (k, o) in enumerate(D.known_items_for(prop, known)):
        hits = int(agg["stats"].get("known_%d" % i, 0))
        if hits and k.get("property") == prop:
            line = "KNOWN-FINDING: property=%s %s" % (prop, k.get("what", k["oracle"]))
            if line not in known_lines:
                known_lines.append(line)
    paths = []
    replay_dir = os.path.join(D.OUT, "replays")
    for sig, (binary, v, count) in sorted(unknown.items(), key=lambda kv: kv[0])[:4]:
        if getattr(v, "prebuilt_replay", None):
            paths.append(v.prebuilt_replay)
            continue
        if v.mode == "long":
            # a long append run has no op list: it is replayed from (universe, seed, run index)
            os.makedirs(replay_dir, exist_ok=True)
            path = os.path.join(replay_dir, "%s-long-%s-%d.replay" % (prop, v.universe, v.seed))
            with open(path, "w") as f:
                f.write("svsim-replay 1\nproperty %s\nuniverse %s\nflavour long\nexpect %s\nseed_base %d\n"
                        "run_index %d\nlong_n %s\nnote %s\n" % (prop, v.universe, v.oracle, seed,
                                                                getattr(v, "run_index", 0), long_n_of(prop, tier), v.msg))
            print("[check %s] %s in a long append run of %s: %s" % (prop, v.oracle, v.universe, v.msg))
            paths.append(path)
            continue
        path, ok, info = D.gate_and_minimise(binary, v, prop, replay_dir, budget_s=45, known_args=kargs)
        print("[check %s] %s at %s in %s (%d occurrence(s)): %s" % (prop, v.oracle, v.op_kind,
                                                                   v.universe, count, v.msg))
        if not ok:
            machinery_error = "violation %s did not reproduce: %s" % (v.oracle, info)
            continue
        print("[check %s] %s" % (prop, info))
        paths.append(path)
    if len(unknown) > 4:
        print("[check %s] %d further distinct violation signatures not minimised" % (prop, len(unknown) - 4))
    return finish(prop, tier, seed, t0, agg, extra_cov, mine, paths, known_lines, machinery_error)


def long_n_of(prop, tier):
    for st in plan(prop, tier):
        if st["mode"] == "long":
            return st["args"][st["args"].index("--long-n") + 1]
    return "100000"


def replay_long(prop, path):
    d = {}
    with open(path) as f:
        for line in f:
            k, _, v = line.rstrip("\n").partition(" ")
            d[k] = v
    binary = B.build("asan20", ALL)
    idx = int(d.get("run_index", 0))
    rc, out, err = D.run_proc([binary, "--universe", d["universe"], "--mode", "long", "--seed", d.get("seed_base", "1"),
                               "--runs", "%d:%d" % (idx, idx + 1), "--long-n", d.get("long_n", "100000"),
                               "--prop", str(int(prop[1:]))], timeout=1800)
    hit = [l for l in out.splitlines() if l.startswith("VIOL ") and (" " + d["expect"] + " ") in l]
    if hit:
        print(hit[0][:300])
        print("VIOLATION property=%s replay=%s" % (prop, path))
        return 1
    print("[replay] the long run no longer violates %s" % d["expect"])
    return 0


def replay_file(prop, path):
    d = D.read_replay(path)
    fl = d["flavour"] or "asan20"
    if fl == "long":
        return replay_long(prop, path)
    if fl.startswith("special:"):
        import specials as S
        return S.replay_special(prop, path, d)
    try:
        binary = B.build(fl, ALL if fl == "asan20" else [u for u in ALL if u["name"] == d["universe"]])
    except B.BuildError as e:
        print("build failed:", e)
        return 2
    o, at, kind, th, v = D.observe(binary, d["universe"], d["world"], d["ops"], fl,
                                   D.known_args_for(prop, D.load_known()), want=d["expect"])
    if o is None:
        print("[replay] no violation: the tree no longer violates %s on this history" % prop)
        return 0
    print("[replay] %s at op %d (%s): %s" % (o, at, kind, v.msg if v else ""))
    if o == d["expect"]:
        print("VIOLATION property=%s replay=%s" % (prop, path))
        return 1
    print("[replay] a different oracle fired first (expected %s)" % d["expect"])
    return 2


def selftest_determinism(seed):
    """Every seed twice, in different processes and at different worker counts; outputs diffed."""
    import hashlib
    binary = B.build("asan20", ALL)
    us = NORMAL
    results = []
    for workers, chunk in ((1, 400), (4, 100), (16, 25)):
        D.NCPU = workers
        digs = {}
        for faults in (0, 1):
            res = D.run_stage(binary, "asan20", us, "storm", 400, seed,
                              ["--prop", "0", "--faults", str(faults), "--digests", "1"], chunk=chunk)
            for k, v in res.digests.items():
                digs[(faults,) + k] = v
        results.append(digs)
        print("[determinism] workers=%d: %d digests" % (workers, len(digs)))
    ok = all(r == results[0] for r in results[1:]) and len(results[0]) > 0
    print("[determinism] %s (%d seeds x %d configurations)" % ("identical" if ok else "DIFFERENT",
                                                              len(results[0]), len(results)))
    return 0 if ok else 2

#!/usr/bin/env python3
"""Hash-keyed build cache for the svsim engine.

A build directory is keyed by the SHA-256 of /repo's include tree, the engine sources and the
flags, so every check rebuilds from /repo's *current working tree*: a changed header gives a new
key and a full rebuild, an unchanged one reuses the objects (18 checks pay for one build).
"""
import hashlib
import os
import shutil
import subprocess
import sys
import time
from concurrent.futures import ThreadPoolExecutor

HERE = os.path.dirname(os.path.abspath(__file__))
VERIF = os.path.dirname(HERE)
SIM = os.path.join(VERIF, "sim")
CACHE = os.path.join(VERIF, ".cache")
sys.path.insert(0, HERE)
import universes as UV  # noqa: E402

FLAVOURS = {
    "asan20": ("g++", ["-std=c++20", "-O1", "-fsanitize=address", "-DNDEBUG"]),
    "dbg20": ("g++", ["-std=c++20", "-O1", "-fsanitize=address"]),
    "rel20": ("g++", ["-std=c++20", "-O2", "-DNDEBUG"]),
    "clang20": ("clang++", ["-std=c++20", "-O1", "-fsanitize=address,undefined",
                            "-fno-sanitize-recover=undefined", "-DNDEBUG"]),
    "nocon20": ("g++", ["-std=c++20", "-O1", "-DNDEBUG", "-DGCH_DISABLE_CONCEPTS"]),
    # the header's GCH_EXCEPTIONS-off branches (fault-free plans only: nothing can be injected)
    "nx20": ("g++", ["-std=c++20", "-O1", "-fsanitize=address", "-DNDEBUG", "-fno-exceptions"]),
    "nostrong20": ("g++", ["-std=c++20", "-O1", "-fsanitize=address", "-DNDEBUG",
                           "-DGCH_NO_STRONG_EXCEPTION_GUARANTEES"]),
}
for std in ("11", "14", "17", "20", "23"):
    FLAVOURS["g" + std] = ("g++", ["-std=c++" + ("2b" if std == "23" else std), "-O1", "-DNDEBUG"])
    FLAVOURS["c" + std] = ("clang++", ["-std=c++" + ("2b" if std == "23" else std), "-O1", "-DNDEBUG"])


def repo_dir():
    return os.environ.get("VERIF_REPO", "/repo")


def include_dir():
    return os.path.join(repo_dir(), "source", "include")


def _hash_tree(h, root, exts=None):
    for dirpath, dirnames, filenames in sorted(os.walk(root)):
        dirnames.sort()
        for fn in sorted(filenames):
            if exts and not fn.endswith(exts):
                continue
            p = os.path.join(dirpath, fn)
            h.update(os.path.relpath(p, root).encode())
            with open(p, "rb") as f:
                h.update(f.read())


def tree_key():
    h = hashlib.sha256()
    _hash_tree(h, include_dir())
    _hash_tree(h, SIM)
    with open(os.path.join(HERE, "universes.py"), "rb") as f:
        h.update(f.read())
    return h.hexdigest()[:20]


def header_key():
    h = hashlib.sha256()
    _hash_tree(h, include_dir())
    return h.hexdigest()[:20]


def _prune(keep_key):
    if not os.path.isdir(CACHE):
        return
    entries = []
    for d in os.listdir(CACHE):
        p = os.path.join(CACHE, d)
        if os.path.isdir(p) and d.startswith("k-"):
            entries.append((os.path.getmtime(p), p))
    entries.sort(reverse=True)
    for _, p in entries[6:]:
        if not p.endswith(keep_key):
            shutil.rmtree(p, ignore_errors=True)


def _run(cmd, log):
    p = subprocess.run(cmd, stdout=subprocess.PIPE, stderr=subprocess.STDOUT, text=True)
    if p.returncode != 0:
        with open(log, "w") as f:
            f.write(" ".join(cmd) + "\n" + p.stdout)
    return p.returncode, p.stdout


class BuildError(Exception):
    def __init__(self, msg, output=""):
        Exception.__init__(self, msg)
        self.output = output


def build(flavour, universes, jobs=16, quiet=False, extra_flags=(), tag=""):
    """Compile (if needed) and link the svsim binary for `flavour` holding `universes`.
    Returns the path of the binary."""
    cxx, flags = FLAVOURS[flavour]
    flags = list(flags) + list(extra_flags)
    key = tree_key()
    bdir = os.path.join(CACHE, "k-" + key, flavour + tag)
    os.makedirs(bdir, exist_ok=True)
    os.utime(os.path.join(CACHE, "k-" + key))
    _prune(key)
    inc = ["-I" + SIM, "-I" + include_dir()]
    common = [cxx] + flags + ["-w"] + inc
    todo = []
    objs = []
    main_o = os.path.join(bdir, "main.o")
    objs.append(main_o)
    if not os.path.exists(main_o):
        todo.append((common + ["-c", os.path.join(SIM, "main.cpp"), "-o", main_o + ".tmp"],
                     os.path.join(bdir, "main.log"), main_o))
    for u in universes:
        src = os.path.join(bdir, "u_%s.cpp" % u["name"])
        obj = os.path.join(bdir, "u_%s.o" % u["name"])
        objs.append(obj)
        if not os.path.exists(obj):
            with open(src, "w") as f:
                f.write(UV.source_for(u))
            todo.append((common + ["-c", src, "-o", obj + ".tmp"],
                         os.path.join(bdir, "u_%s.log" % u["name"]), obj))
    t0 = time.time()
    if todo and not quiet:
        print("[build] %s: compiling %d translation unit(s) with %s ..." % (flavour, len(todo), cxx),
              flush=True)

    def work(item):
        # concurrent checks may build the same key: every process writes its own temporary and
        # renames it into place (rename is atomic; the last writer wins with identical content)
        cmd, log, obj = item
        out = "%s.tmp.%d" % (obj, os.getpid())
        cmd = [c if c not in (obj + ".tmp", obj) or c == cmd[0] else out for c in cmd]
        if os.path.exists(obj):
            return 0, "", obj
        rc, text = _run(cmd, log)
        if rc == 0:
            os.replace(out, obj)
        return rc, text, obj

    failures = []
    with ThreadPoolExecutor(max_workers=jobs) as ex:
        for rc, text, obj in ex.map(work, todo):
            if rc != 0:
                failures.append((obj, text))
    if failures:
        raise BuildError("compilation failed for %s" % ", ".join(os.path.basename(o) for o, _ in failures),
                         failures[0][1])
    names = hashlib.sha256(",".join(sorted(u["name"] for u in universes)).encode()).hexdigest()[:10]
    binary = os.path.join(bdir, "svsim-" + names)
    if todo or not os.path.exists(binary):
        link = [cxx] + [f for f in flags if f.startswith("-fsanitize") or f.startswith("-fno-sanitize")
                        or f.startswith("-fprofile") or f.startswith("-fcoverage")] \
            + objs + ["-o", "%s.tmp.%d" % (binary, os.getpid())]
        rc, text = _run(link, os.path.join(bdir, "link.log"))
        if rc != 0:
            raise BuildError("link failed", text)
        os.replace("%s.tmp.%d" % (binary, os.getpid()), binary)
    if todo and not quiet:
        print("[build] %s: done in %.1fs" % (flavour, time.time() - t0), flush=True)
    return binary


if __name__ == "__main__":
    fl = sys.argv[1] if len(sys.argv) > 1 else "asan20"
    packs = sys.argv[2].split(",") if len(sys.argv) > 2 else ["core"]
    us = UV.UNIVERSES if packs == ["all"] else UV.by_pack(*packs)
    try:
        print(build(fl, us))
    except BuildError as e:
        print(e)
        print(e.output[-6000:])
        sys.exit(2)

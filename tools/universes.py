# Universe table: every entry becomes one translation unit instantiating
# sim::universe<E, A, N0, N1, N2, big>.  `packs` says which checks use it.
#
# alloc cfg template: alloc_cfg<Pocca, Pocma, Pocs, AlwaysEqual, SizeT, MaxSize, SocccToggle,
#                               ConstructMembers>

def cfg(pocca=0, pocma=0, pocs=0, ae=0, size_t="std::size_t", max_size=0, soccc=0, cm=0, hint=0):
    b = lambda x: "true" if x else "false"
    return "sim::alloc_cfg<%s, %s, %s, %s, %s, %dul, %s, %d, %s>" % (
        b(pocca), b(pocma), b(pocs), b(ae), size_t, max_size, b(soccc), int(cm), b(hint))


def U(name, elem, alloc, ns, big=False, packs=()):
    return dict(name=name, elem=elem, alloc=alloc, ns=ns, big=big, packs=set(packs))


NSETS = [(0, 2, 5), (1, 3, 0), (2, 4, 8), (3, 7, 1), (0, 1, 3), (4, 1, 8)]

UNIVERSES = []
_uid = [0]


def add(name, elem, alloc, ns, big=False, packs=()):
    _uid[0] += 1
    u = U(name, elem, alloc, ns, big, packs)
    u["uid"] = _uid[0]
    UNIVERSES.append(u)


def sim_alloc(elem, c):
    return "sim::sim_alloc<%s, %s >" % (elem, c)


NM, TM, MO, MN, CO, TC = ("sim::elem_nm<0>", "sim::elem_tm<0>", "sim::elem_mo<0>",
                          "sim::elem_mn<0>", "sim::elem_co<0>", "sim::elem_tc<0>")
SW = "sim::elem_sw<0>"
MA = "sim::elem_ma<0>"
NC = "sim::elem_nc<0>"

# --- core: every flavour over a plain stateful, non-propagating allocator
for i, (fl, e) in enumerate([("NM", NM), ("TM", TM), ("MO", MO), ("MN", MN), ("CO", CO)]):
    add("core_" + fl, e, sim_alloc(e, cfg()), NSETS[i % len(NSETS)],
        packs=("core", "c17") if fl in ("NM", "TM", "MO") else ("core",))
# mixed element traits: nothrow move construction + throwing move assignment; all-noexcept handle type
add("core_MA", MA, sim_alloc(MA, cfg()), NSETS[3], packs=("core",))
add("alloc_MA_110", MA, sim_alloc(MA, cfg(1, 1, 0)), NSETS[0], packs=("alloc",))
add("core_NC", NC, sim_alloc(NC, cfg()), NSETS[4], packs=("core",))
add("alloc_NC_011", NC, sim_alloc(NC, cfg(0, 1, 1)), NSETS[1], packs=("alloc",))
# large inline capacities
add("core_NM_bigN", NM, sim_alloc(NM, cfg()), (16, 33, 5), packs=("core",))
add("core_TM_bigN", TM, sim_alloc(TM, cfg(1, 1, 1)), (24, 7, 40), packs=("core", "alloc"))
# nothrow moves + throwing user swap: plain allocator, propagating-on-swap allocator, std::allocator
add("core_SW", SW, sim_alloc(SW, cfg()), NSETS[2], packs=("core",))
add("alloc_SW_001", SW, sim_alloc(SW, cfg(0, 0, 1)), NSETS[0], packs=("alloc",))
add("alloc_SW_ae", SW, sim_alloc(SW, cfg(0, 0, 0, ae=1)), NSETS[5], packs=("alloc", "c17"))
# std::allocator (tracked through a specialisation for the tagged element types)
add("std_NM", "sim::elem_nm<1>", "std::allocator<sim::elem_nm<1> >", NSETS[1], packs=("core", "alloc", "c17"))
add("std_TM", "sim::elem_tm<1>", "std::allocator<sim::elem_tm<1> >", NSETS[2], packs=("core", "alloc"))

# --- alloc: the remaining 7 propagation combinations x {NM, TM}, always-equal variants, SOCCC
k = 0
for pocca in (0, 1):
    for pocma in (0, 1):
        for pocs in (0, 1):
            if not (pocca or pocma or pocs):
                continue
            for fl, e in (("NM", NM), ("TM", TM)):
                k += 1
                add("alloc_%s_%d%d%d" % (fl, pocca, pocma, pocs), e,
                    sim_alloc(e, cfg(pocca, pocma, pocs, soccc=(k % 2))), NSETS[k % len(NSETS)],
                    packs=("alloc",))
add("alloc_NM_ae000", NM, sim_alloc(NM, cfg(0, 0, 0, ae=1)), NSETS[3], packs=("alloc",))
add("alloc_TM_ae111", TM, sim_alloc(TM, cfg(1, 1, 1, ae=1, soccc=1)), NSETS[4], packs=("alloc",))
add("alloc_MO_010", MO, sim_alloc(MO, cfg(0, 1, 0)), NSETS[5], packs=("alloc",))
add("alloc_NM_cm", NM, sim_alloc(NM, cfg(cm=1)), NSETS[0], packs=("alloc", "twin"))
add("alloc_NC_cm", NC, sim_alloc(NC, cfg(cm=1)), NSETS[2], packs=("alloc",))
add("alloc_TM_cm", TM, sim_alloc(TM, cfg(0, 1, 0, cm=1)), NSETS[5], packs=("alloc",))
add("alloc_MO_cm", MO, sim_alloc(MO, cfg(0, 1, 1, cm=1)), NSETS[1], packs=("alloc",))
add("alloc_CO_cm", CO, sim_alloc(CO, cfg(1, 0, 0, cm=1, soccc=1)), NSETS[3], packs=("alloc",))
add("alloc_MA_cm_ae", MA, sim_alloc(MA, cfg(0, 0, 0, ae=1, cm=1)), NSETS[4], packs=("alloc",))
# trivially copyable / trivially destructible elements behind an allocator with construct/destroy
# members (no memcpy shortcut may bypass them; destroy() must still be called for every element),
# and C++03-style allocators: construct (p, const T&) + destroy (p) only
add("alloc_TC_cm", TC, sim_alloc(TC, cfg(cm=1)), NSETS[0], packs=("alloc", "twin"))
add("alloc_TC_legacy", TC, sim_alloc(TC, cfg(0, 1, 0, cm=2)), NSETS[2], packs=("alloc", "twin"))
add("alloc_NC_legacy", NC, sim_alloc(NC, cfg(1, 0, 1, cm=2)), NSETS[5], packs=("alloc",))
add("alloc_NM_hint", NM, sim_alloc(NM, cfg(pocma=1, hint=1)), NSETS[4], packs=("alloc",))
add("alloc_CO_101", CO, sim_alloc(CO, cfg(1, 0, 1)), NSETS[1], packs=("alloc",))
add("alloc_MN_011", MN, sim_alloc(MN, cfg(0, 1, 1, soccc=1)), NSETS[2], packs=("alloc",))
add("alloc_MO_ae", MO, sim_alloc(MO, cfg(0, 0, 0, ae=1)), NSETS[3], packs=("alloc",))
add("alloc_CO_111", CO, sim_alloc(CO, cfg(1, 1, 1)), NSETS[5], packs=("alloc",))

# --- size: narrow size_type / max_size()
add("size_NM_u8", NM, sim_alloc(NM, cfg(size_t="std::uint8_t")), (0, 2, 5), big=True, packs=("size",))
add("size_TM_u8m", TM, sim_alloc(TM, cfg(size_t="std::uint8_t", max_size=100)), (1, 3, 0), big=True, packs=("size",))
add("size_NM_u16m", NM, sim_alloc(NM, cfg(size_t="std::uint16_t", max_size=300)), (0, 2, 5), big=True, packs=("size",))
add("size_NM_u32m", NM, sim_alloc(NM, cfg(size_t="std::uint32_t", max_size=50)), (2, 4, 8), big=True, packs=("size",))
add("size_TM_szm", TM, sim_alloc(TM, cfg(max_size=40)), (0, 1, 3), big=True, packs=("size",))
add("size_B1_u8", "sim::elem_b1", sim_alloc("sim::elem_b1", cfg(size_t="std::uint8_t")), (0, 2, 5), big=True, packs=("size",))
add("size_TC_u8", TC, sim_alloc(TC, cfg(size_t="std::uint8_t")), (1, 3, 0), big=True, packs=("size", "twin"))
# 8/16-bit size_type with its own max_size(): more than 255 BYTES behind a position although the
# element count fits the size_type (byte counts of the memmove/memcpy paths must not be narrowed)
add("size_TC_u8m", TC, sim_alloc(TC, cfg(size_t="std::uint8_t", max_size=110)), (0, 2, 5), big=True, packs=("size", "twin"))
add("size_TC_u16m", TC, sim_alloc(TC, cfg(size_t="std::uint16_t", max_size=300)), (2, 4, 8), big=True, packs=("size", "twin"))

# --- twin: trivially copyable against non-trivial, same N sets as their NM twin
add("twin_TC", TC, sim_alloc(TC, cfg()), NSETS[0], packs=("twin", "core", "c17"))
add("twin_TC_std", "sim::elem_tc<1>", "std::allocator<sim::elem_tc<1> >", NSETS[1], packs=("twin", "c17"))
add("twin_TC_111", TC, sim_alloc(TC, cfg(1, 1, 1)), NSETS[2], packs=("twin", "alloc"))
add("twin_NM_111", NM, sim_alloc(NM, cfg(1, 1, 1)), NSETS[2], packs=("alloc",))
add("twin_TC_u16", TC, sim_alloc(TC, cfg(size_t="std::uint16_t")), NSETS[3], packs=("twin",))
add("twin_NM_u16", NM, sim_alloc(NM, cfg(size_t="std::uint16_t")), NSETS[3], packs=("core",))

# (trivially copyable universe, its non-trivial twin): identical N sets and allocator configuration
TWINS = [("alloc_TC_cm", "alloc_NM_cm"), ("twin_TC", "core_NM"), ("twin_TC_std", "std_NM"), ("twin_TC_111", "twin_NM_111"),
         ("twin_TC_u16", "twin_NM_u16")]


def by_pack(*packs):
    want = set(packs)
    return [u for u in UNIVERSES if u["packs"] & want]


def source_for(u):
    return """#include "registry.hpp"
#include "sim_stdalloc.hpp"
typedef %s E;
typedef %s A;
typedef sim::universe<E, A, %d, %d, %d, %s> U;
SVSIM_REGISTER ("%s", %d)
""" % (u["elem"], u["alloc"], u["ns"][0], u["ns"][1], u["ns"][2],
       "true" if u["big"] else "false", u["name"], u["uid"])

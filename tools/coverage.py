#!/usr/bin/env python3
"""Developer aid: which lines of small_vector.hpp does the engine never execute?
Builds the engine with clang source coverage, runs short storms and sweeps in every universe,
and prints the uncovered line ranges of the header (reach probes stuck at zero)."""
import os, subprocess, sys, glob
sys.path.insert(0, os.path.dirname(os.path.abspath(__file__)))
import build as B, driver as D, universes as UV
B.FLAVOURS["cov"] = ("clang++", ["-std=c++20", "-O0", "-DNDEBUG", "-fprofile-instr-generate", "-fcoverage-mapping"])
us = UV.UNIVERSES
binary = B.build("cov", us)
prof = os.path.join(B.CACHE, "cov-prof")
os.makedirs(prof, exist_ok=True)
for f in glob.glob(prof + "/*"):
    os.unlink(f)
os.environ["LLVM_PROFILE_FILE"] = prof + "/p-%8m.profraw"
runs = int(sys.argv[1]) if len(sys.argv) > 1 else 300
D.run_stage(binary, "cov", us, "storm", runs, 1, ["--prop", "0", "--faults", "1"])
D.run_stage(binary, "cov", us, "storm", runs, 1, ["--prop", "0", "--faults", "0"])
D.run_stage(binary, "cov", [u for u in us if not u["big"]], "sweep", max(10, runs // 20), 1,
            ["--prop", "6", "--sweep-mask", "1023", "--pairs", "1"])
merged = prof + "/all.profdata"
subprocess.run(["llvm-profdata-14", "merge", "-sparse", "-o", merged] + glob.glob(prof + "/*.profraw"), check=True)
hdr = os.path.join(B.include_dir(), "gch", "small_vector.hpp")
out = subprocess.run(["llvm-cov-14", "show", binary, "-instr-profile=" + merged, hdr, "-show-line-counts-or-regions=false"],
                     stdout=subprocess.PIPE, text=True).stdout
unc = []
for line in out.splitlines():
    parts = line.split("|", 2)
    if len(parts) == 3 and parts[1].strip() == "0":
        unc.append((int(parts[0].strip()), parts[2]))
print("%d uncovered lines" % len(unc))
prev = None
for n, t in unc:
    if prev is not None and n != prev + 1:
        print("   ...")
    print("%5d %s" % (n, t))
    prev = n

#!/bin/bash
# usage: mutant_eval.sh [--in-repo] <dir with patch.diff [demo.cpp]> <check ids...>
# Confirms the demonstration (fails with the change, passes without) and runs the named checks
# against the changed header.
#   default:    the change is applied to a scratch copy of /repo's source tree and the checks are
#               pointed at it with VERIF_REPO (safe while other runs use /repo);
#   --in-repo:  git -C /repo apply, run, and ALWAYS git -C /repo checkout -- . afterwards.
set -u
# evidence/ and replays/ of runs against a changed tree must not replace the committed ones
export VERIF_OUT=${VERIF_OUT:-/tmp/mutant-eval-out}
INREPO=0
if [ "$1" = "--in-repo" ]; then INREPO=1; shift; fi
DIR=$(cd "$1" && pwd); shift
cd /verif
if [ -f "$DIR/demo.cpp" ]; then
  g++ -std=c++20 -O1 -g -fsanitize=address,undefined -w -I/repo/source/include "$DIR/demo.cpp" -o /tmp/demo_orig.$$ 2>/dev/null
  ASAN_OPTIONS=detect_leaks=0 /tmp/demo_orig.$$ > /tmp/demo_orig.$$.out 2>&1; echo "demo on unchanged /repo: exit=$? ($(tail -1 /tmp/demo_orig.$$.out | cut -c1-80))"
fi
if [ $INREPO = 1 ]; then
  if [ -n "$(git -C /repo status --porcelain --untracked-files=no)" ]; then echo "/repo is dirty, refusing"; exit 2; fi
  if ! git -C /repo apply --check "$DIR/patch.diff" 2>/dev/null; then echo "patch does not apply to current /repo"; exit 2; fi
  git -C /repo apply "$DIR/patch.diff"
  trap 'git -C /repo checkout -- . ; echo "[/repo restored]"' EXIT
  TREE=/repo
else
  TREE=/tmp/mutant-tree.$$
  rm -rf $TREE; mkdir -p $TREE
  git -C /repo archive HEAD source | tar -x -C $TREE
  if ! (cd $TREE && git apply --check "$DIR/patch.diff" 2>/dev/null); then echo "patch does not apply to current /repo HEAD"; rm -rf $TREE; exit 2; fi
  (cd $TREE && git apply "$DIR/patch.diff")
  trap 'rm -rf $TREE /tmp/demo_orig.$$* /tmp/demo_mut.$$*' EXIT
  export VERIF_REPO=$TREE
fi
if [ -f "$DIR/demo.cpp" ]; then
  g++ -std=c++20 -O1 -g -fsanitize=address,undefined -w -I$TREE/source/include "$DIR/demo.cpp" -o /tmp/demo_mut.$$ 2>/dev/null
  ASAN_OPTIONS=detect_leaks=0 /tmp/demo_mut.$$ > /tmp/demo_mut.$$.out 2>&1; echo "demo with the change:    exit=$? ($(tail -1 /tmp/demo_mut.$$.out | cut -c1-80))"
fi
for c in "$@"; do
  ./check $c > /tmp/mut_check_$c.out 2>&1; rc=$?
  echo "check $c: exit=$rc  $(grep -c '^VIOLATION' /tmp/mut_check_$c.out) violation line(s)"
  grep -E "^\[check $c\] .* at .* in " /tmp/mut_check_$c.out | head -4
  grep -E "^VIOLATION|MACHINERY" /tmp/mut_check_$c.out | head -4
done

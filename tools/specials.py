"""Property-specific executors beyond the storm/sweep engine (filled in step by step)."""

SPECIALS = {}


def replay_special(prop, path, d):
    print("no special replay for", prop)
    return 2

"""Property-specific executors beyond the storm/sweep plans: multi-build replay (C17), constant
evaluation (C08), noexcept table (C18), conversion grid / archetypes / twin comparison (C13),
exhaustive small grids (C12, C16)."""
import hashlib
import os
import re
import subprocess
import sys
import time

import build as B
import driver as D
import universes as UV

VERIF = D.VERIF
SPECIALS = {}


def _special_violation(prop, oracle, op_kind, msg, replay_path, universe="-"):
    v = D.Violation()
    v.oracle = oracle
    v.op_kind = op_kind
    v.msg = msg
    v.universe = universe
    v.props = {int(prop[1:])}
    v.prebuilt_replay = replay_path
    return v


# ------------------------------------------------------------------------------------------ C17
C17_FLAVOURS = ["g20", "g11", "c11", "g14", "c14", "g17", "c17", "c20", "g23", "nocon20"]  # clang 14 -std=c++2b excluded, see DESIGN.md


def _trace_of(binary, universe, world, ops):
    path = os.path.join(VERIF, ".cache", "c17-%d.replay" % os.getpid())
    with open(path, "w") as f:
        f.write("universe %s\n%s\n" % (universe, world))
        for o in ops:
            f.write(o + "\n")
    rc, out, err = D.run_proc([binary, "--replay", path, "--digests", "1"], timeout=120)
    os.unlink(path)
    return [l for l in out.splitlines() if l.startswith(("T ", "DIGEST", "VIOL", "TERMINATE", "ASAN", "SIGNAL"))]


def _first_diff(ta, tb):
    """index of the first differing trace line (a missing line counts), None when equal"""
    for i, (a, b) in enumerate(zip(ta, tb)):
        if a != b:
            return i
    return None if len(ta) == len(tb) else min(len(ta), len(tb))


def _history_of(binary, universe, idx, seed, args):
    rc, out, err = D.run_proc([binary, "--universe", universe, "--mode", "storm", "--seed", str(seed),
                               "--runs", "%d:%d" % (idx, idx + 1), "--print-hist", "1"] + args, timeout=120)
    world, ops = "world 0 120 1", []
    for line in out.splitlines():
        if line.startswith("PH world"):
            world = line[3:]
        elif line.startswith("PH op "):
            ops.append(line[3:])
    return world, ops


def c17(prop, tier, seed, known):
    q = tier == "quick"
    us = UV.by_pack("c17")
    runs = 12000 if q else 100000
    args = ["--prop", "17", "--faults", "1", "--digests", "1", "--nops", "24" if q else "40"]
    kargs = D.known_args_for(prop, known)
    digests = {}
    binaries = {}
    stats = {}
    sigs = set()
    samples = []
    foreign = 0
    err = None
    for fl in C17_FLAVOURS:
        try:
            binaries[fl] = B.build(fl, us)
        except B.BuildError as e:
            return dict(error="build of flavour %s failed: %s\n%s" % (fl, e, e.output[-1500:]))
        res = D.run_stage(binaries[fl], fl, us, "storm", runs, seed, args + kargs)
        digests[fl] = res.digests
        D.add_stats(stats, res.stats)
        if fl == C17_FLAVOURS[0]:
            sigs = res.sigs
            samples = res.samples[:2]
        foreign += len(res.violations)
        if res.error:
            err = res.error
    base = C17_FLAVOURS[0]
    violations = []
    mismatches = 0
    seen_first_diff = set()
    for key, (h0, idx) in sorted(digests[base].items(), key=lambda kv: kv[1][1]):
        for fl in C17_FLAVOURS[1:]:
            other = digests[fl].get(key)
            # no digest in this build: the seed did not run to its end there (an oracle violation or
            # a crash / std::terminate that the base build does not have) - a divergence as well
            if other is not None and other[0] == h0:
                continue
            mismatches += 1
            if len(violations) >= 3:
                continue
            universe, sd = key
            world, ops = _history_of(binaries[base], universe, idx, seed, args)
            ta = _trace_of(binaries[base], universe, world, ops)
            tb = _trace_of(binaries[fl], universe, world, ops)
            first = _first_diff(ta, tb)
            if first is None:
                continue
            # minimise: shortest prefix that still differs
            keep = ops
            for n in range(1, len(ops) + 1):
                if _trace_of(binaries[base], universe, world, ops[:n]) != _trace_of(binaries[fl], universe, world, ops[:n]):
                    keep = ops[:n]
                    break
            # then drop earlier ops greedily
            i = 0
            while i < len(keep) - 1:
                cand = keep[:i] + keep[i + 1:]
                if _trace_of(binaries[base], universe, world, cand) != _trace_of(binaries[fl], universe, world, cand):
                    keep = cand
                else:
                    i += 1
            ta = _trace_of(binaries[base], universe, world, keep)
            tb = _trace_of(binaries[fl], universe, world, keep)
            first = _first_diff(ta, tb) or 0
            opk = keep[-1].split()[1] if keep else "?"
            sig = (opk, ta[first] if first < len(ta) else "")
            if sig in seen_first_diff:
                continue
            seen_first_diff.add(sig)
            os.makedirs(os.path.join(D.OUT, "replays"), exist_ok=True)
            path = os.path.join(D.OUT, "replays", "C17-%s-%s.replay" % (universe, sd))
            msg = "builds %s and %s disagree at step %d: [%s] vs [%s]" % (
                base, fl, first, ta[first] if first < len(ta) else "", tb[first] if first < len(tb) else "")
            with open(path, "w") as f:
                f.write("svsim-replay 1\nproperty C17\nuniverse %s\nflavour special:c17\nbuilds %s %s\n"
                        "expect std.digest\nnote %s\n%s\n" % (universe, base, fl, msg, world))
                for o in keep:
                    f.write(o + "\n")
            violations.append((None, _special_violation(prop, "std.digest", opk, msg, path, universe)))
    # the declared noexcept contract must not depend on the standard beyond what the README
    # documents (availability of is_always_equal / is_nothrow_swappable): the table transcribes
    # the documented condition per standard, so any mismatch under any -std is a divergence
    tv, tc = run_aux(prop, "noexcept_table", ["11", "14", "17", "20"] + ([] if q else ["2b"]), "MISMATCH",
                     "std.noexcept_contract", "std.noexcept_contract_compile", "ROWS")
    violations += tv
    cov = dict(extra_evaluations=int(stats.get("evaluations", 0)) + tc["cases"],
               noexcept_table=tc,
               extra_distinct=len(sigs),
               extra_samples=samples,
               builds=C17_FLAVOURS,
               seeds_compared=len(digests[base]),
               digest_mismatches=mismatches,
               oracle_violations_in_any_build=foreign,
               operations=int(stats.get("ops", 0)),
               faults={k: dict(armed=int(stats.get("armed_" + k, 0)), fired=int(stats.get("fired_" + k, 0)))
                       for k in D.EV_KINDS})
    return dict(coverage=cov, violations=violations, error=err)


SPECIALS["C17"] = c17


def replay_c17(path, d):
    builds = None
    with open(path) as f:
        for line in f:
            if line.startswith("builds "):
                builds = line.split()[1:3]
    if not builds:
        print("replay file names no builds")
        return 2
    us = UV.by_pack("c17")
    ta = _trace_of(B.build(builds[0], us), d["universe"], d["world"], d["ops"])
    tb = _trace_of(B.build(builds[1], us), d["universe"], d["world"], d["ops"])
    for a, b in zip(ta, tb):
        print(("   " if a == b else "!! ") + a + ("" if a == b else "\n   %s: %s" % (builds[1], b)))
    if ta != tb:
        print("VIOLATION property=C17 replay=%s" % path)
        return 1
    print("[replay] builds %s and %s agree on this history" % tuple(builds))
    return 0


def replay_special(prop, path, d):
    if d["flavour"] == "special:c17":
        return replay_c17(path, d)
    print("no special replay for", d["flavour"])
    return 2


# ------------------------------------------------------------------------------------------ aux programs
AUX = os.path.join(VERIF, "aux")


def _aux_build_run(name, std, cxx="g++", extra=("-O1", "-fsanitize=address", "-DNDEBUG"), args=()):
    """Compile aux/<name>.cpp against /repo's header (cached by tree key) and run it.
    Returns (compiled_ok, compiler_output, run_rc, run_stdout)."""
    # a std of the form "20nx" means: that standard, compiled with -fno-exceptions (the header's
    # GCH_EXCEPTIONS-off branches: its TRY/CATCH macros become if/else and failures terminate)
    tag = std
    if std.endswith("nx"):
        std = std[:-2]
        extra = tuple(extra) + ("-fno-exceptions",)
    key = B.tree_key()
    h = hashlib.sha256(open(os.path.join(AUX, name + ".cpp"), "rb").read()).hexdigest()[:10]
    bdir = os.path.join(B.CACHE, "k-" + key, "aux")
    os.makedirs(bdir, exist_ok=True)
    exe = os.path.join(bdir, "%s-%s-%s-%s" % (name, cxx.replace("+", "x"), tag, h))
    log = exe + ".log"
    if not os.path.exists(exe):
        cmd = [cxx, "-std=c++" + std, "-w"] + list(extra) + ["-I" + B.include_dir(),
                                                              os.path.join(AUX, name + ".cpp"), "-o", "%s.tmp.%d" % (exe, os.getpid())]
        p = subprocess.run(cmd, stdout=subprocess.PIPE, stderr=subprocess.STDOUT, text=True)
        with open(log, "w") as f:
            f.write(" ".join(cmd) + "\n" + p.stdout)
        if p.returncode != 0:
            return False, p.stdout, None, ""
        os.replace("%s.tmp.%d" % (exe, os.getpid()), exe)
    rc, out, err = D.run_proc([exe] + [str(a) for a in args], timeout=1800)
    if rc != 0:  # keep the sanitizer's headline (stderr) with the output
        out += "".join("\n" + l for l in err.splitlines()
                       if "ERROR: AddressSanitizer" in l or "runtime error:" in l or l.startswith("SUMMARY:"))[:2000]
    return True, "", rc, out


def _write_aux_replay(prop, name, std, cxx, oracle, line, detail, summary_prefix="", args=()):
    os.makedirs(os.path.join(D.OUT, "replays"), exist_ok=True)
    tag = hashlib.sha256(line.encode()).hexdigest()[:10]
    path = os.path.join(D.OUT, "replays", "%s-%s-%s.replay" % (prop, name, tag))
    with open(path, "w") as f:
        f.write("svsim-replay 1\nproperty %s\nflavour special:aux\nprogram %s\nstd %s\ncompiler %s\n"
                "expect %s\nline %s\n" % (prop, name, std, cxx, oracle, line))
        if summary_prefix:  # a crash is reproduced when the program again ends without this line
            f.write("summary %s\n" % summary_prefix)
        if args:
            f.write("args %s\n" % " ".join(str(a) for a in args))
        f.write("detail " + detail.replace("\n", "\ndetail ") + "\n")
    return path


def _first_errors(text, n=25):
    lines = [l for l in text.splitlines() if "error" in l or "required from" in l]
    return "\n".join(lines[:n])


def run_aux(prop, name, stds, fail_prefix, oracle_fail, oracle_compile, summary_prefix, cxxs=("g++",), args=()):
    """Returns (violations, coverage-dict)."""
    violations = []
    total_cases = 0
    runs = []
    from concurrent.futures import ThreadPoolExecutor
    combos = [(cxx, std) for cxx in cxxs for std in stds]
    with ThreadPoolExecutor(max_workers=8) as ex:
        results = list(ex.map(lambda cs: _aux_build_run(name, cs[1], cs[0], args=args), combos))
    for (cxx, std), (ok, cout, rc, out) in zip(combos, results):
        if True:
            if not ok:
                line = "%s does not compile as C++%s with %s" % (name, std, cxx)
                path = _write_aux_replay(prop, name, std, cxx, oracle_compile, line, _first_errors(cout))
                violations.append((None, _special_violation(prop, oracle_compile, name, line + ": " + _first_errors(cout, 3), path)))
                runs.append(dict(program=name, std=std, compiler=cxx, result="compile error"))
                continue
            fails = [l for l in out.splitlines() if l.startswith(fail_prefix)]
            summ = [l for l in out.splitlines() if l.startswith(summary_prefix)]
            if summ:
                for tok in summ[0].split():
                    if tok.lower().startswith("cases=") or tok.lower().startswith("rows"):
                        pass
                nums = [int(t.split("=")[1]) for t in summ[0].split() if "=" in t and t.split("=")[1].isdigit()]
                if not nums:
                    nums = [int(t) for t in summ[0].split() if t.isdigit()]
                total_cases += nums[0] if nums else 0
            else:
                # no summary line: the program did not run to its end (sanitizer abort exits with 1)
                first = next((l for l in out.splitlines() if "ERROR: AddressSanitizer" in l or "runtime error" in l), "")
                m = re.search(r"AddressSanitizer: ([A-Za-z-]+)|runtime error: ([^\n]{0,80})", first)
                line = "%s crashed (rc=%s) as C++%s with %s%s" % (name, rc, std, cxx, (": " + (m.group(1) or m.group(2))) if m else "")
                path = _write_aux_replay(prop, name, std, cxx, oracle_fail, line, out[-2000:], summary_prefix, args)
                violations.append((None, _special_violation(prop, oracle_fail, name, line, path)))
            for l in fails[:3]:
                path = _write_aux_replay(prop, name, std, cxx, oracle_fail, l, "C++%s %s" % (std, cxx), args=args)
                violations.append((None, _special_violation(prop, oracle_fail, l.split()[1] if len(l.split()) > 1 else name,
                                                            l + " (C++%s, %s)" % (std, cxx), path)))
            runs.append(dict(program=name, std=std, compiler=cxx, failures=len(fails),
                             summary=summ[0] if summ else ""))
    return violations, dict(cases=total_cases, runs=runs)


def replay_aux(prop, path):
    d = {}
    with open(path) as f:
        for line in f:
            k, _, v = line.rstrip("\n").partition(" ")
            if k in ("program", "std", "compiler", "expect", "line", "summary", "args"):
                d[k] = v
    ok, cout, rc, out = _aux_build_run(d["program"], d["std"], d["compiler"], args=tuple(d.get("args", "").split()))
    if not ok:
        print(_first_errors(cout, 12))
        if d["expect"].endswith(".compile"):
            print("VIOLATION property=%s replay=%s" % (prop, path))
            return 1
        print("[replay] the program no longer compiles (a different failure)")
        return 2
    if d["expect"].endswith(".compile"):
        print("[replay] %s compiles now" % d["program"])
        return 0
    if d.get("summary") and " crashed (rc=" in d["line"]:
        if not any(l.startswith(d["summary"]) for l in out.splitlines()):
            print("%s again ended without its summary line (rc=%s)" % (d["program"], rc))
            print("VIOLATION property=%s replay=%s" % (prop, path))
            return 1
        print("[replay] %s runs to its end now" % d["program"])
        return 0
    if d["line"] in out.splitlines():
        print(d["line"])
        print("VIOLATION property=%s replay=%s" % (prop, path))
        return 1
    print("[replay] %s no longer reports: %s" % (d["program"], d["line"]))
    return 0


# ------------------------------------------------------------------------------------------ C13
def _twin_traces(binary, ua, ub, world, ops):
    return _trace_of(binary, ua, world, ops), _trace_of(binary, ub, world, ops)


def aux_prebuild():
    """setup: compile the auxiliary programs of the quick tier."""
    from concurrent.futures import ThreadPoolExecutor
    jobs = [(n, std) for n in ("conv_grid", "archetypes", "noexcept_table") for std in ("11", "17", "20")]
    jobs += [("max_grid", "20"), ("cmp_grid", "17"), ("cmp_grid", "20"), ("real_types", "11"), ("real_types", "20"),
             ("noexcept_table", "14"), ("huge_capacity", "20"),
             ("real_types", "20nx"), ("conv_grid", "20nx"), ("archetypes", "20nx"),
             ("iter_grid", "11"), ("iter_grid", "20")]
    with ThreadPoolExecutor(max_workers=9) as ex:
        list(ex.map(lambda j: _aux_build_run(j[0], j[1]), jobs))


def c13(prop, tier, seed, known):
    q = tier == "quick"
    violations = []
    cov = {}
    v1, c1 = run_aux(prop, "conv_grid", ["11", "17", "20"] if q else ["11", "14", "17", "20", "2b"],
                     "CONVFAIL", "conv.value", "conv.compile", "CONV", ("g++",) if q else ("g++", "clang++"))
    v2, c2 = run_aux(prop, "archetypes", ["11", "17", "20"] if q else ["11", "14", "17", "20", "2b"],
                     "ARCHFAIL", "arch.value", "arch.compile", "ARCH", ("g++",) if q else ("g++", "clang++"))
    violations += v1 + v2
    cov["conversion_grid"] = c1
    cov["archetypes"] = c2
    # twin replay
    binary = B.build("asan20", UV.UNIVERSES)
    runs = 20000 if q else 200000
    args = ["--prop", "13", "--faults", "0", "--twin", "1", "--digests", "1", "--nops", "24" if q else "40"]
    twin_cov = []
    compared = 0
    mism = 0
    for tc, nm in UV.TWINS:
        ua = [u for u in UV.UNIVERSES if u["name"] == tc]
        ub = [u for u in UV.UNIVERSES if u["name"] == nm]
        ra = D.run_stage(binary, "asan20", ua, "storm", runs, seed, args)
        rb = D.run_stage(binary, "asan20", ub, "storm", runs, seed, args)
        da = {s: (h, i) for (u, s), (h, i) in ra.digests.items()}
        db = {s: (h, i) for (u, s), (h, i) in rb.digests.items()}
        bad = [(s, da[s][1]) for s in da if s in db and da[s][0] != db[s][0]]
        compared += len(da)
        mism += len(bad)
        twin_cov.append(dict(trivially_copyable=tc, non_trivial=nm, histories=len(da), mismatches=len(bad)))
        for s, idx in sorted(bad, key=lambda x: x[1])[:1]:
            world, ops = _history_of(binary, tc, idx, seed, args)
            ta, tb = _twin_traces(binary, tc, nm, world, ops)
            keep = ops
            for n in range(1, len(ops) + 1):
                xa, xb = _twin_traces(binary, tc, nm, world, ops[:n])
                if [l.split(" ", 2)[-1] for l in xa] != [l.split(" ", 2)[-1] for l in xb] or xa[-1:] != xb[-1:]:
                    if _digest_line(xa) != _digest_line(xb):
                        keep = ops[:n]
                        break
            i = 0
            while i < len(keep) - 1:
                cand = keep[:i] + keep[i + 1:]
                xa, xb = _twin_traces(binary, tc, nm, world, cand)
                if _digest_line(xa) != _digest_line(xb):
                    keep = cand
                else:
                    i += 1
            xa, xb = _twin_traces(binary, tc, nm, world, keep)
            msg = "twin traces differ: %s: [%s] vs %s: [%s]" % (tc, " | ".join(l for l in xa if l.startswith("T "))[-300:],
                                                              nm, " | ".join(l for l in xb if l.startswith("T "))[-300:])
            os.makedirs(os.path.join(D.OUT, "replays"), exist_ok=True)
            path = os.path.join(D.OUT, "replays", "C13-twin-%s-%s.replay" % (tc, s))
            with open(path, "w") as f:
                f.write("svsim-replay 1\nproperty C13\nuniverse %s\nflavour special:twin\ntwin %s %s\n"
                        "expect twin.trace\nnote %s\n%s\n" % (tc, tc, nm, msg.replace("\n", " "), world))
                for o in keep:
                    f.write(o + "\n")
            opk = keep[-1].split()[1] if keep else "?"
            violations.append((None, _special_violation(prop, "twin.trace", opk, msg, path, tc)))
    cov["twin_replay"] = dict(pairs=twin_cov, histories_compared=compared, mismatches=mism)
    cov["extra_evaluations"] = compared + c1["cases"] + c2["cases"]
    return dict(coverage=cov, violations=violations)


def _digest_line(trace):
    return [l.split()[3] for l in trace if l.startswith("DIGEST")]


SPECIALS["C13"] = c13


def replay_twin(prop, path, d):
    tw = None
    with open(path) as f:
        for line in f:
            if line.startswith("twin "):
                tw = line.split()[1:3]
    binary = B.build("asan20", UV.UNIVERSES)
    xa, xb = _twin_traces(binary, tw[0], tw[1], d["world"], d["ops"])
    for a, b in zip(xa, xb):
        print(a)
        print("   " + b)
    if _digest_line(xa) != _digest_line(xb):
        print("VIOLATION property=%s replay=%s" % (prop, path))
        return 1
    print("[replay] the twins agree on this history")
    return 0


# ------------------------------------------------------------------------------------------ C18
def c18(prop, tier, seed, known):
    q = tier == "quick"
    v, c = run_aux(prop, "noexcept_table", ["11", "17", "20"] if q else ["11", "14", "17", "20", "2b"],
                   "MISMATCH", "noexcept.table", "noexcept.table_compile", "ROWS",
                   ("g++",) if q else ("g++", "clang++"))
    # a table that does not compile is a machinery problem unless a declaration disappeared
    # iterator contract: every operator of iterator / const_iterator against pointer arithmetic
    v2, c2 = run_aux(prop, "iter_grid", ["11", "20"] if q else ["11", "14", "17", "20", "2b"],
                     "ITERFAIL", "noexcept.iterator_contract", "noexcept.iterator_contract_compile", "ITER",
                     ("g++",) if q else ("g++", "clang++"))
    return dict(coverage=dict(noexcept_table=c, iterator_grid=c2, extra_evaluations=c["cases"] + c2["cases"]),
                violations=v + v2)


SPECIALS["C18"] = c18


def replay_special(prop, path, d):  # noqa: F811
    if d["flavour"] == "special:c17":
        return replay_c17(path, d)
    if d["flavour"] == "special:aux":
        return replay_aux(prop, path)
    if d["flavour"] == "special:twin":
        return replay_twin(prop, path, d)
    if d["flavour"] == "special:cx":
        return replay_cx(prop, path)
    print("no special replay for", d["flavour"])
    return 2


# ------------------------------------------------------------------------------------------ C08
CXDIR = os.path.join(VERIF, "cx")
CX_COMPILERS = {
    "g++": ["g++", "-std=c++20", "-O0", "-w", "-fconstexpr-ops-limit=2000000000", "-fconstexpr-loop-limit=100000000"],
    "clang++": ["clang++", "-std=c++20", "-O0", "-w", "-fconstexpr-steps=2000000000"],
    "g++-2b": ["g++", "-std=c++2b", "-O0", "-w", "-fconstexpr-ops-limit=2000000000", "-fconstexpr-loop-limit=100000000"],
}


def _cx_compile_run(src_path, comp):
    exe = src_path[:-4] + "-" + comp.replace("+", "x")
    cmd = CX_COMPILERS[comp] + ["-I" + CXDIR, "-I" + B.include_dir(), src_path, "-o", exe]
    p = subprocess.run(cmd, stdout=subprocess.PIPE, stderr=subprocess.STDOUT, text=True)
    if p.returncode != 0:
        return dict(compiled=False, diag=p.stdout, out="", rc=None, cmd=" ".join(cmd))
    rc, out, err = D.run_proc([exe], timeout=300)
    try:
        os.unlink(exe)
    except OSError:
        pass
    return dict(compiled=True, diag="", out=out, rc=rc, cmd=" ".join(cmd))


def _cx_diag_summary(diag):
    keep = [l for l in diag.splitlines() if "error" in l or "not a constant" in l or "constexpr" in l]
    return "\n".join(keep[:12])


def c08(prop, tier, seed, known):
    import cxgen
    from concurrent.futures import ThreadPoolExecutor
    q = tier == "quick"
    batches = 16 if q else 300
    per = 40
    nops = 24 if q else 36
    comps = ["g++", "clang++"] if q else ["g++", "clang++", "g++-2b"]
    key = B.tree_key()
    cdir = os.path.join(B.CACHE, "k-" + key, "cx-%s-%d" % (tier, seed))
    os.makedirs(cdir, exist_ok=True)
    jobs = []
    metas = {}
    for b in range(batches):
        src, meta = cxgen.make_tu(seed, b, per, nops)
        path = os.path.join(cdir, "cx_%04d.cpp" % b)
        with open(path, "w") as f:
            f.write(src)
        metas[b] = meta
        for c in comps:
            jobs.append((b, c, path))
    with ThreadPoolExecutor(max_workers=D.NCPU) as ex:
        results = list(ex.map(lambda j: _cx_compile_run(j[2], j[1]), jobs))
    violations = []
    histories = steps = 0
    distinct = set()
    samples = []
    err = None
    for (b, c, path), r in zip(jobs, results):
        if not r["compiled"]:
            diag = _cx_diag_summary(r["diag"])
            if "constant expression" in r["diag"] or "constexpr" in r["diag"]:
                os.makedirs(os.path.join(D.OUT, "replays"), exist_ok=True)
                rp = os.path.join(D.OUT, "replays", "C08-batch%04d-%s.replay" % (b, c.replace("+", "x")))
                with open(rp, "w") as f:
                    f.write("svsim-replay 1\nproperty C08\nflavour special:cx\ncompiler %s\nseed %d\nbatch %d\n"
                            "per %d\nnops %d\nexpect cx.not_constant\n" % (c, seed, b, per, nops))
                    f.write("detail " + diag.replace("\n", "\ndetail ") + "\n")
                violations.append((None, _special_violation(prop, "cx.not_constant", c,
                                                            "batch %d is not a constant expression under %s: %s" % (b, c, diag[:400]), rp)))
            else:
                err = "constexpr batch %d failed to compile under %s for another reason: %s" % (b, c, diag[:600])
            continue
        for line in r["out"].splitlines():
            if line.startswith("CXMISMATCH"):
                os.makedirs(os.path.join(D.OUT, "replays"), exist_ok=True)
                tok = dict(t.split("=", 1) for t in line.split()[1:4])
                rp = os.path.join(D.OUT, "replays", "C08-batch%04d-h%s-%s.replay" % (b, tok.get("hist"), c.replace("+", "x")))
                h = metas[b][int(tok.get("hist", 0))]
                with open(rp, "w") as f:
                    f.write("svsim-replay 1\nproperty C08\nflavour special:cx\ncompiler %s\nseed %d\nbatch %d\n"
                            "per %d\nnops %d\nexpect cx.trace_mismatch\nline %s\nhistory %s\n" % (c, seed, b, per, nops, line, h["text"]))
                if len(violations) < 6:
                    violations.append((None, _special_violation(prop, "cx.trace_mismatch", "op%s" % tok.get("op"),
                                                                line + " (" + c + ")", rp)))
            elif line.startswith("CX "):
                d = dict(t.split("=", 1) for t in line.split()[1:])
                if c == comps[0]:
                    histories += int(d.get("histories", 0))
                    steps += int(d.get("steps", 0))
        if c == comps[0]:
            for m in metas[b]:
                if m["nontrivial"]:
                    distinct.add(m["digest"])
            if len(samples) < 2:
                samples.append("%s: ops (kind:target:p0:p1:p2) %s" % (metas[b][0]["config"], metas[b][0]["text"][:400]))
    cov = dict(extra_evaluations=histories * len(comps), extra_distinct=len(distinct), extra_samples=samples,
               histories=histories, steps_per_executor=steps, compilers=comps, translation_units=batches,
               executors=["constant evaluator of each compiler", "same function at run time in the same binary"],
               element_types=cxgen.ELEMS, capacity_pairs=cxgen.NM,
               allocators=["std::allocator", "stateful allocator with POCCA/POCMA/POCS = true"],
               fault_dimension="none: constant evaluation cannot throw, the fault dimension is empty by construction")
    return dict(coverage=cov, violations=violations, error=err)


SPECIALS["C08"] = c08


def replay_cx(prop, path):
    import cxgen
    d = {}
    with open(path) as f:
        for line in f:
            k, _, v = line.rstrip("\n").partition(" ")
            if k in ("compiler", "seed", "batch", "per", "nops", "expect", "line"):
                d[k] = v
    src, meta = cxgen.make_tu(int(d["seed"]), int(d["batch"]), int(d["per"]), int(d["nops"]))
    p = os.path.join(B.CACHE, "cx-replay-%d.cpp" % os.getpid())
    with open(p, "w") as f:
        f.write(src)
    r = _cx_compile_run(p, d["compiler"])
    os.unlink(p)
    if not r["compiled"]:
        print(_cx_diag_summary(r["diag"]))
        if d["expect"] == "cx.not_constant":
            print("VIOLATION property=%s replay=%s" % (prop, path))
            return 1
        return 2
    if d["expect"] == "cx.trace_mismatch" and d.get("line") in r["out"].splitlines():
        print(d["line"])
        print("VIOLATION property=%s replay=%s" % (prop, path))
        return 1
    print("[replay] batch compiles and compile-time and run-time traces agree")
    return 0


# ------------------------------------------------------------------------------------------ C12 / C16 grids
def c12(prop, tier, seed, known):
    q = tier == "quick"
    v, c = run_aux(prop, "max_grid", ["20"] if q else ["11", "17", "20"], "MAXFAIL", "max.grid",
                   "max.grid_compile", "MAX", ("g++",) if q else ("g++", "clang++"))
    c["exhaustive_for"] = "8-bit size_type: every growing operation x start size in [0,max_size()] x count/length in [0,max_size()+3] U {254..258,300}"
    hv, hc = huge(prop, tier)
    return dict(coverage=dict(u8_grid=c, capacities_beyond_2_32=hc, extra_evaluations=c["cases"] + hc["cases"]),
                violations=v + hv)


def huge(prop, tier):
    q = tier == "quick"
    return run_aux(prop, "huge_capacity", ["20"] if q else ["11", "17", "20"], "HUGEFAIL",
                   "steal.huge_capacity" if prop == "C09" else "max.huge_capacity",
                   "steal.huge_compile" if prop == "C09" else "max.huge_compile", "HUGE",
                   ("g++",) if q else ("g++", "clang++"))


def c09(prop, tier, seed, known):
    v, c = huge(prop, tier)
    return dict(coverage=dict(capacities_beyond_2_32=c, extra_evaluations=c["cases"]), violations=v)


SPECIALS["C09"] = c09


def c16(prop, tier, seed, known):
    q = tier == "quick"
    v, c = run_aux(prop, "cmp_grid", ["17", "20"] if q else ["11", "14", "17", "20", "2b"], "CMPFAIL",
                   "cmp.grid", "cmp.grid_compile", "CMP", ("g++",) if q else ("g++", "clang++"))
    c["exhaustive_for"] = "all 121 x 121 pairs of contents over {0,1,2} up to length 4 x 9 capacity pairs x 2 element types; six operators (+ <=> in C++20)"
    return dict(coverage=dict(comparison_grid=c, extra_evaluations=c["cases"]), violations=v)


SPECIALS["C12"] = c12
SPECIALS["C16"] = c16


# ------------------------------------------------------------------------------------------ C01
def c01(prop, tier, seed, known):
    """std::vector equivalence also covers element types the storm engine does not instantiate:
    pointer / arithmetic / enum elements built from converting ranges, and the minimal-requirement
    archetypes (values compared with std::vector driven by the same calls)."""
    q = tier == "quick"
    # "NNnx": the same programs built with -fno-exceptions (none of them needs an exception)
    stds = ["11", "17", "20", "20nx"] if q else ["11", "14", "17", "20", "2b", "11nx", "20nx"]
    v1, c1 = run_aux(prop, "conv_grid", stds, "CONVFAIL", "model.conv_value", "model.conv_compile", "CONV")
    v2, c2 = run_aux(prop, "archetypes", stds, "ARCHFAIL", "model.arch_value", "model.arch_compile", "ARCH")
    # seeded lock-step histories over real-world element types (std::string, unique_ptr, shared_ptr, ...)
    v3, c3 = run_aux(prop, "real_types", ["11", "20", "20nx"] if q else ["11", "17", "20", "11nx", "20nx"], "REALFAIL", "model.real_types",
                     "model.real_types_compile", "REAL", args=(seed, 4000 if q else 40000))
    return dict(coverage=dict(conversion_grid=c1, archetypes=c2, real_element_types=c3,
                              extra_evaluations=c1["cases"] + c2["cases"] + c3["cases"]),
                violations=v1 + v2 + v3)


SPECIALS["C01"] = c01

"""Property-specific executors beyond the storm/sweep plans: multi-build replay (C17), constant
evaluation (C08), noexcept table (C18), conversion grid / archetypes / twin comparison (C13),
exhaustive small grids (C12, C16)."""
import hashlib
import os
import subprocess
import sys
import time

import build as B
import driver as D
import universes as UV

VERIF = D.VERIF
SPECIALS = {}


def _special_violation(prop, oracle, op_kind, msg, replay_path, universe="-"):
    v = D.Violation()
    v.oracle = oracle
    v.op_kind = op_kind
    v.msg = msg
    v.universe = universe
    v.props = {int(prop[1:])}
    v.prebuilt_replay = replay_path
    return v


# ------------------------------------------------------------------------------------------ C17
C17_FLAVOURS = ["g20", "g11", "c11", "g14", "c14", "g17", "c17", "c20", "g23", "nocon20"]  # clang 14 -std=c++2b excluded, see DESIGN.md


def _trace_of(binary, universe, world, ops):
    path = os.path.join(VERIF, ".cache", "c17-%d.replay" % os.getpid())
    with open(path, "w") as f:
        f.write("universe %s\n%s\n" % (universe, world))
        for o in ops:
            f.write(o + "\n")
    rc, out, err = D.run_proc([binary, "--replay", path, "--digests", "1"], timeout=120)
    os.unlink(path)
    return [l for l in out.splitlines() if l.startswith("T ") or l.startswith("DIGEST") or l.startswith("VIOL")]


def _history_of(binary, universe, idx, seed, args):
    rc, out, err = D.run_proc([binary, "--universe", universe, "--mode", "storm", "--seed", str(seed),
                               "--runs", "%d:%d" % (idx, idx + 1), "--print-hist", "1"] + args, timeout=120)
    world, ops = "world 0 120 1", []
    for line in out.splitlines():
        if line.startswith("PH world"):
            world = line[3:]
        elif line.startswith("PH op "):
            ops.append(line[3:])
    return world, ops


def c17(prop, tier, seed, known):
    q = tier == "quick"
    us = UV.by_pack("c17")
    runs = 3000 if q else 40000
    args = ["--prop", "17", "--faults", "1", "--digests", "1", "--nops", "24" if q else "40"]
    kargs = D.known_args_for(prop, known)
    digests = {}
    binaries = {}
    stats = {}
    sigs = set()
    samples = []
    foreign = 0
    err = None
    for fl in C17_FLAVOURS:
        try:
            binaries[fl] = B.build(fl, us)
        except B.BuildError as e:
            return dict(error="build of flavour %s failed: %s\n%s" % (fl, e, e.output[-1500:]))
        res = D.run_stage(binaries[fl], fl, us, "storm", runs, seed, args + kargs)
        digests[fl] = res.digests
        D.add_stats(stats, res.stats)
        if fl == C17_FLAVOURS[0]:
            sigs = res.sigs
            samples = res.samples[:2]
        foreign += len(res.violations)
        if res.error:
            err = res.error
    base = C17_FLAVOURS[0]
    violations = []
    mismatches = 0
    seen_first_diff = set()
    for key, (h0, idx) in sorted(digests[base].items(), key=lambda kv: kv[1][1]):
        for fl in C17_FLAVOURS[1:]:
            other = digests[fl].get(key)
            if other is None or other[0] == h0:
                continue
            mismatches += 1
            if len(violations) >= 3:
                continue
            universe, sd = key
            world, ops = _history_of(binaries[base], universe, idx, seed, args)
            ta = _trace_of(binaries[base], universe, world, ops)
            tb = _trace_of(binaries[fl], universe, world, ops)
            first = next((i for i, (a, b) in enumerate(zip(ta, tb)) if a != b), None)
            if first is None:
                continue
            # minimise: shortest prefix that still differs
            keep = ops
            for n in range(1, len(ops) + 1):
                if _trace_of(binaries[base], universe, world, ops[:n]) != _trace_of(binaries[fl], universe, world, ops[:n]):
                    keep = ops[:n]
                    break
            # then drop earlier ops greedily
            i = 0
            while i < len(keep) - 1:
                cand = keep[:i] + keep[i + 1:]
                if _trace_of(binaries[base], universe, world, cand) != _trace_of(binaries[fl], universe, world, cand):
                    keep = cand
                else:
                    i += 1
            ta = _trace_of(binaries[base], universe, world, keep)
            tb = _trace_of(binaries[fl], universe, world, keep)
            first = next((i for i, (a, b) in enumerate(zip(ta, tb)) if a != b), 0)
            opk = keep[-1].split()[1] if keep else "?"
            sig = (opk, ta[first] if first < len(ta) else "")
            if sig in seen_first_diff:
                continue
            seen_first_diff.add(sig)
            os.makedirs(os.path.join(VERIF, "replays"), exist_ok=True)
            path = os.path.join(VERIF, "replays", "C17-%s-%s.replay" % (universe, sd))
            msg = "builds %s and %s disagree at step %d: [%s] vs [%s]" % (
                base, fl, first, ta[first] if first < len(ta) else "", tb[first] if first < len(tb) else "")
            with open(path, "w") as f:
                f.write("svsim-replay 1\nproperty C17\nuniverse %s\nflavour special:c17\nbuilds %s %s\n"
                        "expect std.digest\nnote %s\n%s\n" % (universe, base, fl, msg, world))
                for o in keep:
                    f.write(o + "\n")
            violations.append((None, _special_violation(prop, "std.digest", opk, msg, path, universe)))
    cov = dict(extra_evaluations=int(stats.get("evaluations", 0)),
               extra_distinct=len(sigs),
               extra_samples=samples,
               builds=C17_FLAVOURS,
               seeds_compared=len(digests[base]),
               digest_mismatches=mismatches,
               oracle_violations_in_any_build=foreign,
               operations=int(stats.get("ops", 0)),
               faults={k: dict(armed=int(stats.get("armed_" + k, 0)), fired=int(stats.get("fired_" + k, 0)))
                       for k in D.EV_KINDS})
    return dict(coverage=cov, violations=violations, error=err)


SPECIALS["C17"] = c17


def replay_c17(path, d):
    builds = None
    with open(path) as f:
        for line in f:
            if line.startswith("builds "):
                builds = line.split()[1:3]
    if not builds:
        print("replay file names no builds")
        return 2
    us = UV.by_pack("c17")
    ta = _trace_of(B.build(builds[0], us), d["universe"], d["world"], d["ops"])
    tb = _trace_of(B.build(builds[1], us), d["universe"], d["world"], d["ops"])
    for a, b in zip(ta, tb):
        print(("   " if a == b else "!! ") + a + ("" if a == b else "\n   %s: %s" % (builds[1], b)))
    if ta != tb:
        print("VIOLATION property=C17 replay=%s" % path)
        return 1
    print("[replay] builds %s and %s agree on this history" % tuple(builds))
    return 0


def replay_special(prop, path, d):
    if d["flavour"] == "special:c17":
        return replay_c17(path, d)
    print("no special replay for", d["flavour"])
    return 2

#!/usr/bin/env python3
"""Writes /verif/MANIFEST.json from the table below (kept as code so that it stays consistent)."""
import json
import os

VERIF = os.path.dirname(os.path.dirname(os.path.abspath(__file__)))

T_STORM = "deterministic simulation: seeded operation/fault histories (storm) over simulated allocator, element and iterator seams, checked step by step against a std::vector reference model and seam oracles"
T_SWEEP = "deterministic simulation with fault enumeration: seeded state-targeted prefix, then every single throw point (and pairs in roll-back code) of the operation under test, oracles on the post-fault state plus a fault-free epilogue"

CHECKS = {
    "C01": ("exploration", "4.C01", T_STORM + "; refinement of std::vector on contents, sizes, returned positions/references, at() exceptions",
            "Seeded search, not proof. Trusts the std::vector model (libstdc++), the harness interpretation of operands, x86-64/libstdc++ 12 only."),
    "C02": ("exploration", "4.C02", T_STORM + "; storage-invariant probe on every container after every step, including steps that threw and moved-from sources",
            "Seeded search. 'data() inside the object' is judged against the placement box of each container; N <= max_size() configurations only."),
    "C03": ("exploration", "4.C03", T_STORM + "; address-keyed lifetime registry at the element seam (construct over live, use of dead, double destroy) and live-set == union of containers after every step",
            "Seeded search. Registry-tracked element flavours, plus the allocator's own view (construct()/destroy() balance, variadic and C++03-style allocators) which also covers trivially destructible elements; a fault-free stage runs the engine built with -fno-exceptions."),
    "C04": ("exploration", "4.C04", T_STORM + "; allocator ledger (block, n, id) checked at every deallocate and after every step; per-operation allocate count against 'result fits in capacity'",
            "Seeded search. Exemptions are the ones the property text lists (shrink_to_fit, propagating unequal assignment, unequal non-propagating swap, mid-sequence single-pass insert, reserve(n > capacity))."),
    "C05": ("fault_enumeration", "4.C05", T_SWEEP + "; strong guarantee: snapshot before == state after the throw (size, values, no moved-from, capacity/data for the std::vector-specified subset, source of append(&&))",
            "Every single allocator/constructor throw point of each sampled (state, operation, operands) cell is enumerated (capped at 48 per cell); the cells themselves are sampled by seed. One known finding (relocation by move through a throwing allocator construct()) is listed in known_findings.json."),
    "C06": ("fault_enumeration", "4.C06", T_SWEEP + "; basic guarantee: invariants, exactly size() live elements, clean ledger, then an 8-op fault-free epilogue and teardown",
            "Singles for all fault kinds, pairs (k, j <= 12) for roll-back paths, per sampled cell; plus fault storms for depth of state."),
    "C07": ("exploration", "4.C07", T_STORM + "; expected get_allocator() identity from the propagation traits after every construction/assignment/swap; allocation traffic must use a participant's allocator, and every construct()/destroy() of a slot must go through the allocator of the container that owns the slot",
            "Seeded search over 8 propagation combinations x {NM,TM}, always-equal variants, SOCCC identity/toggling, equal/unequal instances. For always-equal allocators identity is not demanded (all instances compare equal)."),
    "C08": ("exploration", "4.C08", "deterministic simulation replayed in a second executor: seeded operation histories over two/three containers are evaluated by the compiler's constant evaluator (constexpr variables, g++ and clang++) and by the same interpreter at run time; any 'not a constant expression' diagnostic (UB, out-of-lifetime access, unreleased allocation) is a violation, and the per-step observation hashes (sizes, values, return values, comparable capacities) must agree",
            "No fault dimension (constant evaluation cannot throw). capacity() is compared only while comparable (excluded from a move/swap until the next shrink_to_fit), inlined() never. Trusts the compilers' constant evaluators as UB detectors."),
    "C09": ("exploration", "4.C09", T_STORM + "; steal oracle: destination data() == source's old data(), same element serials, zero element events on the transferred buffer, stolen-from source empty and inlined",
            "Steal is demanded exactly when the property permits it; stealing more is allowed."),
    "C10": ("exploration", "4.C10", T_STORM + "; capacity()/data() stability and zero mutating element events on the untouched prefix for growing calls that fit; reserve no-op/at-least rules; at most one allocation for sized growth",
            "Seeded search. Prefix events come from the element seam, so they are checked for instrumented flavours; cap/data rules for all."),
    "C11": ("exploration", "4.C11", T_STORM + "; alias-argument variants of the six listed calls against a copy-first model, in-place and reallocating, registry catches reads of moved-from/destroyed elements",
            "Seeded search over positions, counts and aliased index; NM, TM, CO and trivially copyable flavours."),
    "C12": ("exploration", "4.C12", T_STORM + " in narrow-size_type / small-max_size() universes with counts and range lengths clustered around max_size(), 254..258 and 300; length_error / unchanged / allocate-argument / size() <= max_size() oracles, canaries and ASan for writes past the block",
            "Seeded search; N <= max_size() configurations. One known finding (single-pass assign longer than max_size()) is listed in known_findings.json."),
    "C13": ("exploration", "4.C13", T_STORM + " in trivially copyable universes (memcpy/memmove/fill paths) with canaries around blocks and objects; same histories are legal for the non-trivial twin; conversion grid and archetype instantiation",
            "Seeded search for the fast paths; the conversion part is plain differential checking on enumerated type pairs (no fault dimension)."),
    "C14": ("exploration", "4.C14", T_STORM + "; every reallocation of a listed growing op must reach >= required and >= ceil(1.5 x old) (or max_size()); long append runs bound allocation and relocation counts",
            "No constant 2 in the oracle: a 1.5x policy passes."),
    "C15": ("exploration", "4.C15", T_STORM + "; iterator seam records per-position dereference/increment counts, order, stale-copy use and use at/after last for every range op; generator call count and order",
            "Seeded search over lengths 0..32, all pre-state classes and positions, stream faults on and off."),
    "C16": ("exploration", "4.C16", T_STORM + " over a 4-value alphabet with comparison and non-member operations boosted; plain differential checking against std::vector comparisons (no fault dimension)",
            "Differential check on simulator-reached states; exploration level only."),
    "C17": ("exploration", "4.C17", "deterministic simulation replayed across builds: the same seeds (storm histories with fault plans) are executed by the engine compiled as C++11/14/17/20/23 with g++ and clang++ and with GCH_DISABLE_CONCEPTS; per-seed digests of the observable trace (contents, sizes, capacities, allocator ids, return values, exception kinds) must be identical, and every build also runs all oracles",
            "10 builds over 7 universes; a seed that runs to its end in one build and not in another (std::terminate, crash or oracle violation in that build only) counts as a divergence; clang 14 -std=c++2b is excluded (its constant-evaluation handling misreports inlined() even in a 10-line program without the harness, see DESIGN.md)."),
    "C18": ("fault_enumeration", "4.C18", T_SWEEP + "; any injected fault that ends in std::terminate is a violation; a call whose noexcept(expr) is true must execute zero may-throw seam events",
            "Dynamic part only enumerates sampled cells; terminate is observed as worker death with the op and fault in flight recorded. The iterator clause is an exhaustive operator grid over short containers (raw and class-type pointers). One known finding (declared-noexcept moves through a throwing allocator construct()) is listed in known_findings.json."),
}

NOT_APPLICABLE = [
    {"property_id": "C19", "reason": "compile-time layout constants (sizeof/alignof/default_buffer_size): nothing executes, so there is no history, fault or seam for a simulation to drive; deciding it is static_assert enumeration, a different technique"},
    {"property_id": "C20", "reason": "subject is GDB/natvis scripts inspecting a stopped process from outside; no fault, schedule or history inside the simulated process decides it, and natvis cannot run here"},
]


def main():
    checks = []
    for pid in sorted(CHECKS):
        cat, ref, tech, note = CHECKS[pid]
        checks.append({
            "property_id": pid,
            "quick_cmd": "./check %s --tier quick" % pid,
            "thorough_cmd": "./check %s --tier thorough" % pid,
            "evidence_file": "/verif/evidence/%s.json" % pid,
            "replay_cmd_template": "./check %s --replay {path}" % pid,
            "engine": "svsim",
            "level_claimed": {"category": cat, "text": tech, "design_ref": "DESIGN.md section " + ref},
            "level_note": note,
            "technique": "deterministic simulation with fault injection (seeded histories + fault plans over allocator/element/iterator seams)",
        })
    manifest = {
        "version": 1,
        "setup_cmd": "./check setup",
        "hooks": {
            "guard": "GCH_SMALL_VECTOR_VERIF",
            "enable": "not needed: every seam (Allocator, T, InputIt, Generator) is a template parameter of the unmodified header; checks compile /repo/source/include as it is",
            "baseline_off_cmd": "cmake --build /repo/_build && ctest --test-dir /repo/_build -j8 --timeout 900",
            "source_commits": [],
            "add_only": True,
        },
        "engines": [
            {"name": "svsim", "path": "/verif/sim", "serves_properties": sorted(CHECKS),
             "kind_free_text": "C++11-subset deterministic simulator: seeded PRNG -> operation/fault histories; simulated allocator, element and iterator seams; std::vector reference model; storm, sweep, long-run and replay modes"},
        ],
        "checks": checks,
        "not_applicable": NOT_APPLICABLE,
        "notes": "See DESIGN.md. ./check <id> [--tier quick|thorough] [--replay file]; VERIF_SEED seeds everything; exit 0 held / 1 VIOLATION / 2 machinery fault.",
    }
    with open(os.path.join(VERIF, "MANIFEST.json"), "w") as f:
        json.dump(manifest, f, indent=1)
        f.write("\n")


if __name__ == "__main__":
    main()
